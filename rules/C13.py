"""C13 - children are started, awaited and reaped correctly under every schedule.

Structural clauses decided (DESIGN.md 4/C13): the SIGCHLD handler is armed before the
first poll of wait() in every wait-then-sleep loop, and those loops return success only
with a child's status; a pipeline closes its last pipe ends before waiting and waits for
exactly the children it started; the pipefail fold; who owns the pid returned by
Config::start; stranded children are reaped after every command; the wait built-in's
status table."""
import re
from engine import RuleSet
import mirq as Q
import hirq as H
import pp
from rules.C08 import await_done, done_block, conds, only_label, cond_name, eq_const_args, EQ, NE

RS = RuleSet(
    'C13',
    explanation=(
        'Dominance, path and table rules on the pre-lowering MIR (valid for every schedule, because they constrain '
        'the order of the shell\'s own system calls, not the interleaving): every function that polls Wait::wait and '
        'sleeps in wait_for_signal(s) arms the internal SIGCHLD disposition (awaited, error propagated) before the '
        'first poll and outside the loop - otherwise a child exiting between the poll and the sleep is never noticed '
        '(lost wake-up, which the FIFO test scheduler cannot produce); such a loop returns success only on the '
        'Some((pid, state)) answer after recording it in the job list, and on None goes to sleep and polls again; '
        'a multi-command pipeline closes its remaining pipe ends (shift(.., false)) before the first wait - else the '
        'last reader never sees EOF - and waits for exactly the pids it pushed, each pid coming from the start '
        'result; the pipefail fold is final = status iff !success || !pipefail, starting from 0, and is what is '
        'stored in $?; every pid returned by Config::start is waited for in the same function (or its helper), or '
        'recorded as a job, or returned by a wrapper; Command::execute and run_command call '
        'update_all_subshell_statuses on every path so that stranded children are reaped; job_status maps unknown and '
        'disowned jobs to 127 (removing the disowned one), removes a finished job before reporting its status '
        '(reported once), reports a stopped job only under job control and never removes it; wait_while_running '
        'tests before it waits and re-tests after every wake-up.'),
    not_decided='deadlock-freedom and result-independence under all schedules; the simulator\'s wait()/SIGCHLD '
                'semantics; exactly-once reaping inside the simulated process table',
    trusted=['pipefail definition (POSIX.1-2024 set -o pipefail): status of the last command that failed, else 0'],
    assumptions=['dominance is computed on normal control flow (unwind edges dropped)'],
)

WAIT = ['yash_env::system::process::Wait::wait']
SLEEP = ['yash_env::Env::<S>::wait_for_signal', 'yash_env::Env::<S>::wait_for_signals',
         'yash_env::system::concurrency::WaitForSignals::wait_for_signals']
ARM = ['yash_env::trap::TrapSet::enable_internal_disposition_for_sigchld']
UPDATE_STATUS = ['yash_env::job::JobList::update_status']
PIPE = 'yash_semantics::command::pipeline::'
CONFIG_START = 'yash_env::subshell::config::Config::start'
WAITERS = [re.compile(r'^yash_env::Env::<S>::wait_for_subshell(_to_halt|_to_finish)?$')]
TRY = Q.TRY_BRANCH + Q.PROPAGATING_CALLS


def _is_delegate(body):
    """`impl Wait for Rc<S>/Concurrent<S>` forwarding bodies."""
    return body.fn.startswith('<') or '::delegates::' in body.fn


# ----------------------------------------------------------------- shape tolerance: the poll extracted into a helper
def _wait_helpers(F):
    """Synchronous functions of the workspace that call Wait::wait themselves (`fn poll_status(&mut self, target)
    { let r = self.system.wait(target)?; .. }`): a call of such a private same-module helper is analysed in place."""
    hs = getattr(F, '_c13_wait_helpers', None)
    if hs is None:
        hs = set()
        for fn, b in F.bodies.items():
            if b.d.get('coroutine') or _is_delegate(b) or not b.root.startswith(('yash_', '<yash_')):
                continue
            if Q.find_calls(b, WAIT):
                hs.add(fn)
        F._c13_wait_helpers = hs
    return hs


def _with_wait_inlined(F, body):
    """`body` with the private same-module helpers that poll wait() inlined (F.inlined: `body` itself if there is none)."""
    hs = _wait_helpers(F)
    if not hs or not any((t['f'].get('def') or '') in hs for _, t in body.calls()):
        return body
    cache = F.__dict__.setdefault('_c13_inlined', {})
    if body.fn not in cache:
        from facts import same_module_private
        base = same_module_private(F, body.root)
        cache[body.fn] = F.inlined(body, accept=lambda c: c in hs and base(c))
    return cache[body.fn]


def _status_class(F, body, du, wt):
    """Locals that hold the very answer of the wait() call `wt` (unchanged), by level: {local: 'R' | 'C' | 'O' | 'E'}.
    'R': the Result itself - plain moves of it, also re-built as `Ok(option)` / `from_residual(its error)` (a helper
    ending in `Ok(update)` after `let update = wait()?`); 'C': the ControlFlow Try::branch makes of an R local; 'O': the
    Option<(pid, state)> payload (of `?` or of a match on the Result) and plain copies of it; 'E': the error payload.
    A local qualifies only if EVERY definition of it is such a copy, and an 'O' local only if it is never borrowed mutably."""
    lvl = {wt['dest']['l']: 'R'}

    def plain_local(o):
        p = Q.operand_place(o)
        return p['l'] if p is not None and Q.is_plain(p) else None

    def payload_of(o, variant_level):
        """operand `(x as V).0` with (V, level of x) in variant_level"""
        p = Q.operand_place(o)
        proj = (p or {}).get('p') or []
        if len(proj) == 2 and isinstance(proj[0], dict) and isinstance(proj[1], dict) and str(proj[1].get('f')) == '0':
            return (proj[0].get('v'), lvl.get(p['l'])) in variant_level
        return False

    def is_r(d):
        blk, j, node = d
        if j == 't':       # from_residual(e): the error answer, passed on
            return node is wt or (Q.callee_is(node, Q.FROM_RESIDUAL) and len(node['a']) == 1 and lvl.get(plain_local(node['a'][0])) == 'E')
        if node['k'] != 'assign' or node['lhs'].get('p'):
            return False
        rv = node['rv']
        if rv['k'] == 'use':
            return lvl.get(plain_local(rv['o'])) == 'R'
        if rv['k'] == 'agg' and (rv.get('adt') or '') == 'core::result::Result' and rv.get('variant') == 'Ok':
            return len(rv.get('ops') or []) == 1 and lvl.get(plain_local(rv['ops'][0])) == 'O'
        return False

    def is_c(d):
        blk, j, node = d
        return j == 't' and Q.callee_is(node, Q.TRY_BRANCH) and len(node['a']) == 1 and lvl.get(plain_local(node['a'][0])) == 'R'

    def is_payload(level, variants):
        def pred(d):
            blk, j, node = d
            if j == 't' or node['k'] != 'assign' or node['lhs'].get('p') or node['rv']['k'] != 'use':
                return False
            o = node['rv']['o']
            return lvl.get(plain_local(o)) == level or payload_of(o, variants)
        return pred
    preds = (('R', is_r), ('C', is_c), ('O', is_payload('O', {('Continue', 'C'), ('Ok', 'R')})),
             ('E', is_payload('E', {('Break', 'C')})))
    changed = True
    while changed:
        changed = False
        for l, ds in du.defs.items():
            if l in lvl or not ds:
                continue
            for level, pred in preds:
                if all(pred(d) for d in ds):
                    lvl[l] = level
                    changed = True
                    break
    # a mutable borrow could change the value between two tests of it
    for b, j, s in body.stmts():
        if s['k'] == 'assign' and s['rv']['k'] == 'ref' and s['rv'].get('mut') and lvl.get(s['rv']['pl']['l']) in ('O', 'R'):
            del lvl[s['rv']['pl']['l']]
    return lvl


_RES_LABEL = {'Continue': 'ok', 'Ok': 'ok', 'Break': 'err', 'Err': 'err'}


def _status_path(F, body, du, lvl, start, goals, removed=(), known0=(None, None)):
    """Shortest path start -> goals that is feasible with respect to the tests of ONE wait() answer: the locals in `lvl`
    (see _status_class) all hold the same answer, so a path that leaves one test of it by the None (error) edge cannot
    take the Some (success) edge of a later one (`if let Some(..) = update { record }; Ok(update)` in a helper, `?` and
    `if let Some(..)` again in the caller). The state is (ok / err, Some / None) as far as known; blocks in `removed` are
    not entered (the wait() block itself: a new poll gives a new answer)."""
    from collections import deque
    removed, goals = set(removed), set(goals)
    tests = {}
    for b in body.live_blocks():
        ec = Q.edge_condition(F, body, du, b)
        if ec and ec[0]['k'] == 'discr' and Q.is_plain(ec[0]['pl']) and lvl.get(ec[0]['pl']['l']) in ('R', 'C', 'O'):
            tests[b] = (0 if lvl[ec[0]['pl']['l']] in ('R', 'C') else 1, ec[1])
    st0 = (start, tuple(known0))
    prev = {st0: None}
    q = deque([st0])
    while q:
        b, kn = q.popleft()
        if b in goals:
            path, cur = [], (b, kn)
            while cur is not None:
                path.append(cur[0])
                cur = prev[cur]
            return path[::-1]
        for s in body.succ(b):
            if s in removed:
                continue
            k2 = kn
            if b in tests:
                i, labels = tests[b]
                labs = {l[1] for l in labels.get(s, []) if l[0] == 'variant'}
                if i == 0:
                    labs = {_RES_LABEL.get(x, x) for x in labs}
                if kn[i] is not None and kn[i] not in labs:
                    continue
                if len(labs) == 1:
                    k2 = (next(iter(labs)), kn[1]) if i == 0 else ('ok', next(iter(labs)))
            st = (s, k2)
            if st in prev:
                continue
            prev[st] = (b, kn)
            q.append(st)
    return None


# ----------------------------------------------------------------- R1
@RS.rule('C13.R1', 'K-ORDER', 'wait-then-sleep loops: SIGCHLD handler armed before the first wait(); success only with a child status')
def r1(cx):
    F = cx.F
    loops = []
    for body in F.bodies.values():
        if _is_delegate(body):
            continue
        body = _with_wait_inlined(F, body)      # the poll may live in a private helper (wait once + record)
        ws = Q.find_calls(body, WAIT)
        sl = Q.find_calls(body, SLEEP)
        if ws and sl:
            loops.append((body, ws, sl))
    # the two loops the shell relies on must still sleep between polls (a loop that lost its sleep is a
    # busy loop, or returns prematurely: reported here, not silently dropped from the inventory)
    for known in ('yash_env::Env::<S>::wait_for_subshell', 'yash_builtin::wait::core::wait_for_any_job_or_trap'):
        kb = _with_wait_inlined(F, F.main_body(known))
        if Q.find_calls(kb, WAIT) and not Q.find_calls(kb, SLEEP):
            cx.site('%s: polls wait() but never sleeps' % kb.fn)
            cx.violation(known, 'none-without-sleep', 'the loop polls wait() without sleeping in wait_for_signal(s) when no child '
                         'has changed state', loc=kb.loc(Q.find_calls(kb, WAIT)[0][1]))
        elif not Q.find_calls(kb, WAIT):
            cx.site('%s: does not poll wait() any more' % kb.fn)
            cx.violation(known, 'no-wait', '%s no longer obtains child statuses from wait()' % known, loc=kb.loc(kb.d))
    cx.floor(len(loops), 2 if not cx.violations else 0, 'functions that poll wait() and sleep on signals')
    for body, ws, sl in loops:
        cx.fn(body.fn)
        du = Q.DefUse(body)
        arm = Q.find_calls(body, ARM)
        for wb, wt in ws:
            cx.site('%s: wait() at %s; sleeps %s; arms SIGCHLD %s' % (body.fn, body.loc(wt), [body.loc(t) for _, t in sl],
                                                                         [body.loc(t) for _, t in arm]))
            # (a) armed, awaited, error propagated, before the first poll and outside the loop
            ok = False
            for ab, at in arm:
                d = await_done(F, body, du, at)
                if d is None:
                    continue
                # success edge of the `?`
                succ_ok = False
                for c in conds(F, body, du, wb):
                    org = c[0]
                    # `?` (Continue edge of Try::branch) or an explicit match on the Result (Ok edge)
                    if org['k'] == 'discr' and c[1] in (('variant', 'Continue'), ('variant', 'Ok')):
                        src = Q.value_source(body, du, {'cp': {'l': org['pl']['l']}})
                        if src is at:
                            succ_ok = True
                in_loop = ab in body.reachable(wb)
                if body.dominates(d, wb) and succ_ok and not in_loop:
                    ok = True
            if not ok:
                cx.violation(body.root, 'sigchld-not-armed-before-wait', 'the internal SIGCHLD disposition is not installed '
                             '(awaited, with its error propagated) before the first wait() of this loop: a child that exits '
                             'between wait() and wait_for_signal is never noticed and the shell sleeps forever',
                             loc=body.loc(wt))
            # (b) success is returned only with a child's status
            taint = Q.forward_taint(body, {wt['dest']['l']}, through_calls=TRY)
            oks = [(b, j, s) for b, j, s in Q.find_aggregates(body, 'core::result::Result', 'Ok') if s['lhs']['l'] == 0]
            if not oks:
                cx.violation(body.root, 'no-success-exit', 'the wait loop has no Ok(..) exit', loc=body.loc(wt))
            upd = Q.find_calls(body, UPDATE_STATUS)
            for b, j, s in oks:
                cs = conds(F, body, du, b)
                some = [c for c in cs if c[0]['k'] == 'discr' and c[0]['pl']['l'] in taint and only_label(cs, c, ('variant', 'Some'))]
                cx.site('%s: Ok(..) at %s, under Some(status) of wait(): %s' % (body.fn, body.loc(s), bool(some)))
                if not some:
                    cx.violation(body.root, 'ok-without-status', 'the wait loop can return success without wait() having '
                                 'reported a child status', loc=body.loc(s))
                    continue
                recorded = any(body.dominates(ub, b) and any(c2[2] == some[0][2] for c2 in conds(F, body, du, ub)) for ub, ut in upd)
                if not recorded and upd and wt.get('to') is not None:
                    # the same answer tested twice (`if let Some(..) = update { record }; Ok(update)` in a helper, `if let
                    # Some(..)` again here): every path from this poll to the Ok(..) that is feasible for ONE answer records it
                    recorded = body.dominates(wb, b) and \
                        _status_path(F, body, du, _status_class(F, body, du, wt), wt['to'], {b}, removed={ub for ub, _ in upd} | {wb}) is None
                if not recorded:
                    cx.violation(body.root, 'status-not-recorded', 'the reported child status is not passed to '
                                 'JobList::update_status before returning: the job table would keep the child as running',
                                 loc=body.loc(s))
            # (c) on None: sleep, then poll again; no return without sleeping
            none_edges = []
            for sb in body.live_blocks():
                ec = Q.edge_condition(F, body, du, sb)
                if ec and ec[0]['k'] == 'discr' and ec[0]['pl']['l'] in taint:
                    for tgt, labs in ec[1].items():
                        if set(labs) == {('variant', 'None')}:
                            none_edges.append((sb, tgt))
            if not none_edges:
                cx.violation(body.root, 'none-case-missing', 'the wait loop does not distinguish "no child has changed state yet"',
                             loc=body.loc(wt))
            sleeps_done = set()
            for b, t in sl:
                d = await_done(F, body, du, t)
                if d is not None:
                    sleeps_done.add(d)
            lvl = _status_class(F, body, du, wt)
            for sb, tgt in none_edges:
                p = Q.must_pass(body, [tgt], sleeps_done, goal_blocks=set(body.return_blocks()) | {wb})
                tested = Q.edge_condition(F, body, du, sb)[0]['pl']
                if p and Q.is_plain(tested) and lvl.get(tested['l']) == 'O':
                    # the same answer is tested again further on (the poll is a helper that returns it): on this path it is None there too
                    p = _status_path(F, body, du, lvl, tgt, set(body.return_blocks()) | {wb}, removed=sleeps_done, known0=('ok', 'None'))
                if p:
                    cx.violation(body.root, 'none-without-sleep', 'after wait() reported no change the loop polls again or '
                                 'returns without sleeping in wait_for_signal(s) (busy loop or premature return)',
                                 loc=body.loc(wt), path=Q.render_path(body, p))
                if wb not in body.reachable(tgt):
                    cx.violation(body.root, 'none-no-retry', 'after sleeping the loop does not poll wait() again', loc=body.loc(wt))
        cx.sample({'function': body.fn, 'wait': [body.loc(t) for _, t in ws]})
    # wait_for_signal must really loop until that signal is in the list
    wfs = F.main_body('yash_env::Env::<S>::wait_for_signal')
    cx.fn(wfs.fn)
    du = Q.DefUse(wfs)
    cont = Q.find_calls(wfs, [re.compile(r'::contains$')])
    inner = Q.find_calls(wfs, ['yash_env::Env::<S>::wait_for_signals'])
    cx.site('%s: wait_for_signals at %s, contains() tests: %d' % (wfs.fn, [wfs.loc(t) for _, t in inner], len(cont)))
    if not inner or not cont:
        cx.violation('yash_env::Env::<S>::wait_for_signal', 'no-signal-test', 'wait_for_signal does not test the caught signals '
                     'for the awaited signal', loc=wfs.loc(wfs.d))
    else:
        for b, t in cont:
            ec = Q.edge_condition(F, wfs, du, t['to'])
            back = [tgt for tgt, labs in (ec[1].items() if ec else []) if inner[0][0] in wfs.reachable(tgt)]
            # the edge that loops back must be the `false` one (signal not in the list)
            for tgt in back:
                labs = ec[1][tgt]
                if ('bool', True) in labs and not any(wfs.term(x)['k'] == 'return' for x in [tgt]):
                    # `while !contains` lowers either to Not + switch or to swapped targets; decide by the Not
                    org = du.origin(wfs.term(t['to'])['d'])
                    negated = org['k'] == 'unop' and org['rv']['op'] == 'Not'
                    if not negated:
                        cx.violation('yash_env::Env::<S>::wait_for_signal', 'loop-polarity', 'wait_for_signal keeps waiting when '
                                     'the signal HAS been caught', loc=wfs.loc(t))


# ----------------------------------------------------------------- R2 / R3
def _pipeline_body(cx):
    F = cx.F
    body = F.main_body(PIPE + 'execute_multi_command_pipeline')
    cx.fn(body.fn)
    return body, Q.DefUse(body)


@RS.rule('C13.R2', 'K-ORDER', 'pipeline: last pipe ends closed before the first wait; waits for exactly the pids it started')
def r2(cx):
    F = cx.F
    body, du = _pipeline_body(cx)
    root = body.root
    shifts = Q.find_calls(body, [PIPE + 'shift_or_fail'])
    final = [(b, t) for b, t in shifts if t['a'][-1].get('c') == 'false']
    waits = Q.find_calls(body, WAITERS)
    starts = Q.find_calls(body, [CONFIG_START])
    cx.require(len(starts) == 1, 'expected one Config::start call in execute_multi_command_pipeline, found %d' % len(starts))
    cx.require(waits, 'no wait_for_subshell* call in execute_multi_command_pipeline')
    for b, t in shifts:
        cx.site('%s: shift_or_fail(.., %s) at %s' % (body.fn, t['a'][-1].get('c', 'has_next'), body.loc(t)))
    for b, t in waits:
        cx.site('%s: %s at %s' % (body.fn, pp.callee(t).split('::')[-1], body.loc(t)))
    if not final:
        cx.violation(root, 'no-final-shift', 'the parent never closes its last pipe ends (shift_or_fail(.., false)) before waiting',
                     loc=body.loc(waits[0][1]))
    else:
        dones = [done_block(F, body, du, b, t) for b, t in final if await_done(F, body, du, t) is not None]
        for wb, wt in waits:
            if not any(d != wb and body.dominates(d, wb) or d == wb for d in dones):
                cx.violation(root, 'wait-before-close', 'a child is waited for before the parent has closed its remaining pipe '
                             'ends: the reader at the end of the pipeline never sees EOF and the wait never returns',
                             loc=body.loc(wt))
        # no start after the final shift
        for d in dones:
            if starts[0][0] in body.reachable(d):
                cx.violation(root, 'start-after-final-shift', 'a command is started after the pipes were closed', loc=body.loc(starts[0][1]))
    # pid bookkeeping
    sb, st = starts[0]
    sd = await_done(F, body, du, st)
    cx.require(sd is not None, 'Config::start is not awaited in the pipeline')
    taint = Q.forward_taint(body, {st['dest']['l']})
    pushes = [(b, t) for b, t in Q.find_calls(body, ['alloc::vec::Vec::<T, A>::push']) if 'yash_env::job::Pid' in ' '.join(t.get('at', []))]
    good_push = [(b, t) for b, t in pushes if Q.operand_local(t['a'][1]) in taint]
    cx.site('%s: pid pushes: %s' % (body.fn, [body.loc(t) for _, t in pushes]))
    if not good_push:
        cx.violation(root, 'pid-not-recorded', 'the pid returned by Config::start is not recorded for the wait loop', loc=body.loc(st))
        return
    pb, pt = good_push[0]
    vec = du.origin(pt['a'][0])
    vec_local = vec['pl']['l'] if vec['k'] == 'ref' else None
    # every successful start reaches the push before the next command is started or the waiting begins
    nexts = {b for b, t in Q.find_calls(body, [re.compile(r'Iterator>::next$'), '*::Iterator::next'])}
    goals = ({b for b, _ in final} | nexts) - {pb}
    p = Q.must_pass(body, [sd], {pb}, goal_blocks={g for g in goals if g in body.reachable(sd)})
    if p:
        cx.violation(root, 'start-without-push', 'a started child can be forgotten: a path from the start to the next '
                     'iteration does not record its pid', loc=body.loc(st), path=Q.render_path(body, p))
    # the wait loop consumes that vector
    for wb, wt in waits:
        pid_arg = [a for a, ty in zip(wt['a'], wt.get('at', [])) if ty == 'yash_env::job::Pid']
        src = Q.value_source(body, du, pid_arg[0]) if pid_arg else None
        ok = False
        if src is not None and Q.callee_is(src, [re.compile(r'Iterator>::next$'), '*::Iterator::next']):
            it = du.origin(src['a'][0])
            itl = it['pl']['l'] if it['k'] == 'ref' else None
            # iter = into_iter(move pids)
            for ib, itt in Q.find_calls(body, [re.compile(r'IntoIterator>::into_iter$')]):
                t2 = Q.forward_taint(body, {itt['dest']['l']}, through_calls=[])
                if itl in t2 | {itt['dest']['l']}:
                    o = du.origin(itt['a'][0])
                    base = o['pl']['l'] if o['k'] in ('place', 'ref') else Q.operand_local(itt['a'][0])
                    tv = Q.forward_taint(body, {vec_local}, through_calls=[]) | {vec_local}
                    if base in tv:
                        ok = True
        if not ok:
            cx.violation(root, 'waits-other-pids', 'the wait loop does not iterate over the vector of started pids '
                         '(a child could be left unwaited, or a foreign pid waited for)', loc=body.loc(wt))
    cx.sample({'function': body.fn, 'final_shift': [body.loc(t) for _, t in final], 'wait': [body.loc(t) for _, t in waits]})


def _eval_bool(body, du, operand, env, depth=6):
    """Value of a boolean operand under env: {'succ': bool, 'pipefail': bool}; None if unknown."""
    if depth == 0:
        return None
    org = du.origin(operand)
    if org['k'] == 'call':
        t = org['t']
        if Q.callee_is(t, ['yash_env::semantics::ExitStatus::is_successful']):
            return env['succ']
        if Q.callee_is(t, EQ + NE):
            # options.get(PipeFail) == On
            names = eq_const_args(body, du, t)
            src = [Q.value_source(body, du, a) for a in t['a']]
            got = any(s is not None and Q.callee_is(s, ['yash_env::option::OptionSet::get']) and
                      any(n.endswith('Option::PipeFail') for n in eq_const_args(body, du, s)) for s in src)
            if got and any(n.endswith('State::On') for n in names):
                return env['pipefail'] if Q.callee_is(t, EQ) else not env['pipefail']
            if got and any(n.endswith('State::Off') for n in names):
                return (not env['pipefail']) if Q.callee_is(t, EQ) else env['pipefail']
        return None
    if org['k'] == 'unop' and org['rv']['op'] == 'Not':
        v = _eval_bool(body, du, org['rv']['o'], env, depth - 1)
        return None if v is None else not v
    if org['k'] == 'place' and Q.is_plain(org['pl']):
        # a named flag with one definition (let pipefail = ...)
        d = du.single_def(org['pl']['l'])
        if d is not None and d[1] == 't':
            return _eval_call(body, du, d[2], env)
    return None


def _eval_call(body, du, t, env):
    if Q.callee_is(t, ['yash_env::semantics::ExitStatus::is_successful']):
        return env['succ']
    if Q.callee_is(t, EQ + NE):
        names = eq_const_args(body, du, t)
        src = [Q.value_source(body, du, a) for a in t['a']]
        got = any(s is not None and Q.callee_is(s, ['yash_env::option::OptionSet::get']) and
                  any(n.endswith('Option::PipeFail') for n in eq_const_args(body, du, s)) for s in src)
        if got and any(n.endswith('State::On') for n in names):
            return env['pipefail'] if Q.callee_is(t, EQ) else not env['pipefail']
        if got and any(n.endswith('State::Off') for n in names):
            return (not env['pipefail']) if Q.callee_is(t, EQ) else env['pipefail']
    return None


@RS.rule('C13.R3', 'K-TABLE', 'pipefail fold: the status becomes the result iff it is a failure or pipefail is off; starts at 0; stored in $?')
def r3(cx):
    F = cx.F
    body, du = _pipeline_body(cx)
    root = body.root
    # the local stored into env.exit_status at the end
    stores = [(b, j, s) for b, j, s in body.stmts() if s['k'] == 'assign' and Q._projects_field(s['lhs'], 'yash_env::Env', 'exit_status')]
    cx.require(len(stores) == 1, 'expected one store to env.exit_status in the pipeline, found %d' % len(stores))
    sb, sj, ss = stores[0]
    org = du.origin(ss['rv']['o']) if ss['rv']['k'] == 'use' else {'k': '?'}
    cx.require(org['k'] == 'place' and Q.is_plain(org['pl']), 'env.exit_status is not assigned from an accumulator variable')
    acc = org['pl']['l']
    cx.site('%s: env.exit_status = %s at %s' % (body.fn, body.local_name(acc), body.loc(ss)))
    waits = Q.find_calls(body, WAITERS)
    cx.require(len(waits) == 1, 'expected one wait call in the pipeline')
    wb, wt = waits[0]
    status_taint = Q.forward_taint(body, {wt['dest']['l']}, through_calls=Q.AWAIT_CALLS + TRY + [re.compile(r'Result::<T, E>::(expect|unwrap)$')])
    defs = du.defs.get(acc, [])
    init = [d for d in defs if d[1] != 't' and d[2]['rv']['k'] == 'use' and d[2]['rv']['o'].get('cdef', '').endswith('ExitStatus::SUCCESS')]
    upd = [d for d in defs if d[1] != 't' and any(p['l'] in status_taint for p in Q.rvalue_places(d[2]['rv']))]
    cx.site('%s: accumulator initialised with SUCCESS: %s; updated from the waited status at %s' %
            (body.fn, bool(init), [body.loc(d[2]) for d in upd]))
    if len(init) != 1 or len(upd) != 1 or len(defs) != 2:
        cx.violation(root, 'fold-shape', 'the pipeline status must start as ExitStatus::SUCCESS and be updated only from the '
                     'waited child statuses (found %d definitions)' % len(defs), loc=body.loc(ss))
        return
    if not body.dominates(init[0][0], wb):
        cx.violation(root, 'fold-init', 'the accumulator is not initialised before the wait loop', loc=body.loc(init[0][2]))
    ub = upd[0][0]
    wd = await_done(F, body, du, wt)
    cx.require(wd is not None, 'the wait call of the pipeline is not awaited')
    tests = Q.find_calls(body, ['yash_env::semantics::ExitStatus::is_successful'])
    if not tests:
        cx.violation(root, 'fold-ignores-success', 'the pipeline status is folded without testing whether a member FAILED (no '
                     'ExitStatus::is_successful on the waited status): with pipefail the result must be the status of the RIGHTMOST failing '
                     'member (POSIX.1-2024 2.9.2), not e.g. the greatest one - `exit 30 | exit 20 | exit 0` is 20', loc=body.loc(upd[0][2]))
        return
    tt = tests[0][1]
    stop = {wb} | {b for b, t in Q.find_calls(body, [re.compile(r'Iterator>::next$')])} | set(body.return_blocks())
    table = {}
    for succ in (True, False):
        for pf in (True, False):
            env = {'succ': succ, 'pipefail': pf}
            known = {}          # local -> bool, along the simulated path

            def val(o):
                l = Q.operand_local(o)
                if l is not None and l in known and Q.is_plain(Q.operand_place(o)):
                    return known[l]
                if 'c' in o and o.get('ty') == 'bool':
                    return o['c'] == 'true'
                return _eval_bool(body, du, o, env)
            b = wd
            assigned = None
            for _ in range(400):
                if b == ub:
                    assigned = True
                    break
                if b in stop:
                    assigned = False
                    break
                for s_ in body.blocks[b]['s']:
                    if s_['k'] != 'assign' or not Q.is_plain(s_['lhs']):
                        continue
                    rv = s_['rv']
                    v = None
                    if rv['k'] == 'use':
                        v = val(rv['o']) if (rv['o'].get('ty') == 'bool' or Q.operand_local(rv['o']) in known) else None
                    elif rv['k'] == 'unop' and rv['op'] == 'Not':
                        v0 = val(rv['o'])
                        v = None if v0 is None else not v0
                    if v is None:
                        known.pop(s_['lhs']['l'], None)
                    else:
                        known[s_['lhs']['l']] = v
                t = body.term(b)
                if t['k'] == 'switch':
                    v = val(t['d'])
                    cx.require(v is not None, 'pipefail fold: condition at %s is not decidable' % body.loc(t))
                    nxt = None
                    for value, tgt in t['ts']:
                        if bool(value) == v:
                            nxt = tgt
                    b = nxt if nxt is not None else t['else']
                    continue
                if t['k'] == 'call' and Q.is_plain(t['dest']):
                    v = _eval_call(body, du, t, env)
                    if v is None:
                        known.pop(t['dest']['l'], None)
                    else:
                        known[t['dest']['l']] = v
                sc = body.succ(b)
                cx.require(len(sc) == 1, 'pipefail fold: unexpected control flow at %s' % body.loc(t))
                b = sc[0]
            cx.require(assigned is not None, 'pipefail fold: evaluation did not terminate')
            table[(succ, pf)] = assigned
            cx.cellcount(1)
            want = (not succ) or (not pf)
            if assigned != want:
                cx.violation(root, 'fold-cell:success=%s,pipefail=%s' % (succ, pf), 'with pipefail %s a %s child status %s the '
                             'pipeline status (POSIX: last command, or with pipefail the last failing command, else 0)'
                             % ('on' if pf else 'off', 'successful' if succ else 'failing',
                                'replaces' if assigned else 'does not replace'), loc=body.loc(tt))
    cx.sample({'function': body.fn, 'table': {str(k): v for k, v in table.items()}})
    # the store happens after the loop, on the normal exit
    if wb in body.reachable(sb):
        cx.violation(root, 'store-in-loop', 'env.exit_status is stored inside the wait loop', loc=body.loc(ss))


# ----------------------------------------------------------------- R4
JOB_SINKS = ['yash_env::job::Job::new', 'yash_env::job::JobList::insert', 'yash_env::job::JobList::set_last_async_pid',
             'yash_env::job::handle_job_status']
PASS_THROUGH = {'yash_env::subshell::Subshell::<S, F>::start': 'deprecated wrapper returning the pid to its caller'}


CONTAINER_STORE = [re.compile(r'::(push|push_back|push_front|insert|extend|extend_from_slice|append)$')]


def _taint_mut(body, du, seeds):
    """forward_taint through every call, and additionally into containers: a call that
    receives a tainted argument taints the locals it borrows mutably (`vec.push(pid)`)."""
    taint = set(seeds)
    while True:
        new = Q.forward_taint(body, taint)
        for b, t in body.calls():
            if not Q.callee_is(t, CONTAINER_STORE) or not any(Q.operand_local(a) in new for a in t['a']):
                continue
            for a in t['a']:
                o = du.origin(a)
                hops = 0
                while o['k'] == 'ref' and hops < 4:
                    if o.get('mut') and not ((o['pl'].get('p') or []) == ['*'] and not body.locals[o['pl']['l']].get('name')):
                        new.add(o['pl']['l'])
                        break
                    if (o['pl'].get('p') or []) == ['*']:
                        o = du.origin_place({'l': o['pl']['l']})
                        hops += 1
                    else:
                        break
        if new == taint:
            return taint
        taint = new


def _pid_consumed(F, body, du, seeds, depth=1):
    """How the value in `seeds` (a start result) is consumed: list of descriptions."""
    taint = _taint_mut(body, du, seeds)
    out = []
    for b, t in body.calls():
        tainted_args = [i for i, a in enumerate(t['a']) if Q.operand_local(a) in taint]
        if not tainted_args:
            continue
        at = t.get('at') or []
        pid_arg = any(i < len(at) and at[i] == 'yash_env::job::Pid' for i in tainted_args)
        if Q.callee_is(t, WAITERS):
            if pid_arg:
                out.append('waited:%s' % pp.callee(t).split('::')[-1])
        elif Q.callee_is(t, JOB_SINKS):
            if pid_arg or Q.callee_is(t, ['yash_env::job::JobList::insert']):
                out.append('job:%s' % pp.callee(t).split('::')[-1])
        elif depth > 0:
            callee = t['f'].get('def')
            if callee and callee in F.bodies and not callee.startswith(('core::', 'alloc::', 'std::')):
                cb = F.main_body(callee)
                if cb.d.get('coroutine'):
                    # coroutine body: parameter i is captured as _1.(i)
                    s2 = set()
                    for bb, jj, ss in cb.stmts():
                        if ss['k'] == 'assign' and ss['rv']['k'] == 'use':
                            pl = Q.operand_place(ss['rv']['o'])
                            if pl and pl['l'] == 1 and pl.get('p') and isinstance(pl['p'][0], dict) and pl['p'][0].get('f') in [str(i) for i in tainted_args] + tainted_args:
                                s2.add(ss['lhs']['l'])
                else:
                    s2 = {i + 1 for i in tainted_args}
                if s2:
                    sub = _pid_consumed(F, cb, Q.DefUse(cb), s2, depth - 1)
                    out.extend('%s>%s' % (callee.split('::')[-1], x) for x in sub)
    return out


@RS.rule('C13.R4', 'K-CALLERS', 'every pid returned by Config::start is waited for, recorded as a job, or returned by a wrapper')
def r4(cx):
    F = cx.F
    sites = F.callers_of(lambda names, t: CONFIG_START in names)
    cx.floor(len(sites), 4, 'Config::start call sites')
    for body, b, t in sites:
        cx.fn(body.fn)
        du = Q.DefUse(body)
        uses = _pid_consumed(F, body, du, {t['dest']['l']})
        cx.site('%s: Config::start at %s -> %s' % (body.root, body.loc(t), sorted(set(uses)) or 'returned/unused'))
        if any(u.split('>')[-1].startswith(('waited:', 'job:')) for u in uses):
            continue
        if body.root in PASS_THROUGH:
            # must flow to the return value
            taint = Q.forward_taint(body, {t['dest']['l']})
            if 0 in taint:
                continue
        cx.violation(body.root, 'pid-dropped', 'the child started here is neither waited for nor recorded in the job list: '
                     'nobody reaps it and its status is lost', loc=body.loc(t))


# ----------------------------------------------------------------- R5
@RS.rule('C13.R5', 'K-PASS', 'stranded children are reaped: update_all_subshell_statuses runs on every path of Command::execute and run_command')
def r5(cx):
    F = cx.F
    for fn, what in (('<yash_syntax::syntax::Command as yash_semantics::command::Command<S>>::execute', 'after every command'),
                     ('yash_semantics::runner::run_command', 'before every top-level command')):
        body = F.main_body(fn)
        cx.fn(body.fn)
        du = Q.DefUse(body)
        ups = Q.find_calls(body, ['yash_env::Env::<S>::update_all_subshell_statuses'])
        cx.site('%s: update_all_subshell_statuses at %s' % (body.fn, [body.loc(t) for _, t in ups]))
        if not ups:
            cx.violation(fn, 'no-status-update', 'child statuses are not collected %s: finished asynchronous children stay '
                         'zombies and `jobs` reports stale states' % what, loc=body.loc(body.d))
            continue
        if fn.startswith('<'):
            p = Q.must_pass(body, [0], {b for b, _ in ups})
            if p:
                cx.violation(fn, 'status-update-skipped', 'a path through Command::execute returns without collecting child '
                             'statuses', loc=body.loc(ups[0][1]), path=Q.render_path(body, p))
            # after the command body: every execute() of a sub-command is completed before the update
            subs = [(b, t) for b, t in body.calls() if any(n.endswith('::execute') for n in Q.callee_names(t))]
            cx.floor(len(subs), 3, 'sub-command execute calls in Command::execute')
            for b, t in subs:
                d = await_done(F, body, du, t)
                if d is None or not any(body.dominates(d, ub) for ub, _ in ups if ups):
                    if not any(ub in body.reachable(d if d is not None else b) for ub, _ in ups):
                        cx.violation(fn, 'update-before-command', 'child statuses are collected before the command ran, not after',
                                     loc=body.loc(t))
        else:
            # run_command: the update precedes the command
            ex = [(b, t) for b, t in body.calls() if any(n.endswith('::execute') for n in Q.callee_names(t))]
            for b, t in ex:
                if not any(body.dominates(ub, b) for ub, _ in ups):
                    cx.violation(fn, 'update-after-command', 'run_command does not collect child statuses before the command',
                                 loc=body.loc(t))
    ub = _with_wait_inlined(F, F.body('yash_env::Env::<S>::update_all_subshell_statuses'))    # poll + record may be one private helper
    cx.fn(ub.fn)
    du = Q.DefUse(ub)
    w = Q.find_calls(ub, WAIT)
    u = Q.find_calls(ub, UPDATE_STATUS)
    cx.site('%s: wait at %s, update_status at %s' % (ub.fn, [ub.loc(t) for _, t in w], [ub.loc(t) for _, t in u]))
    if not w or not u:
        cx.violation(ub.fn, 'reap-shape', 'update_all_subshell_statuses must poll wait() and record each status', loc=ub.loc(ub.d))
    else:
        # loops: wait is reachable again after update_status; Pid::ALL is the target
        if w[0][0] not in ub.reachable(u[0][1]['to']):
            cx.violation(ub.fn, 'reap-once', 'only one child status is collected per call (the rest stay unreaped)', loc=ub.loc(w[0][1]))
        tgt = w[0][1]['a'][1]
        org = du.origin(tgt)          # through the parameter of an inlined helper: poll(Pid::ALL)
        if not (tgt.get('cdef', '').endswith('Pid::ALL') or (org['k'] == 'const' and (org['o'].get('cdef') or '').endswith('Pid::ALL'))):
            cx.violation(ub.fn, 'reap-target', 'update_all_subshell_statuses must wait for any child (Pid::ALL)', loc=ub.loc(w[0][1]))


# ----------------------------------------------------------------- R6
@RS.rule('C13.R6', 'K-TABLE+K-PASS', 'wait built-in: job_status table (127 / remove-then-report / stopped only under job control); re-test after every wake-up')
def r6(cx):
    F = cx.F
    fn = 'yash_builtin::wait::status::job_status'
    bodies = [b for b in F.logical(fn) if b.fn != fn]
    cx.require(len(bodies) == 1, 'closure of job_status not found')
    body = bodies[0]
    cx.fn(body.fn)
    du = Q.DefUse(body)
    removes = Q.find_calls(body, ['yash_env::job::JobList::remove'])
    gets = Q.find_calls(body, ['yash_env::job::JobList::get'])
    cx.require(len(gets) == 1, 'JobList::get not called exactly once in job_status')
    get_dest = gets[0][1]['dest']['l']
    breaks = [(b, j, s) for b, j, s in Q.find_aggregates(body, 'core::ops::control_flow::ControlFlow', 'Break') if s['lhs']['l'] == 0]
    seen = set()
    for b, j, s in breaks:
        cs = conds(F, body, du, b)
        val = s['rv']['ops'][0]
        is_127 = val.get('cdef', '').endswith('ExitStatus::NOT_FOUND')
        removed = any(rb != b and body.dominates(rb, b) for rb, _ in removes)
        case = None
        for c in cs:
            org, lab = c[0], c[1]
            if org['k'] == 'discr' and org['pl']['l'] == get_dest and only_label(cs, c, ('variant', 'None')):
                case = 'unknown'
            if org['k'] == 'place' and lab == ('bool', False) and any(isinstance(e, dict) and e.get('f') == 'is_owned' for e in org['pl'].get('p') or []):
                case = 'disowned'
        if case is None:
            labsets = [{l[1] for _, l, e in cs if e == c[2]} for c in cs if c[0]['k'] == 'discr' and 'ProcessResult' in (c[0].get('ty') or '')]
            if any(ls and ls <= {'Exited', 'Signaled'} for ls in labsets):
                case = 'finished'
            elif any(ls == {'Stopped'} for ls in labsets):
                case = 'stopped'
        cx.site('%s: Break(%s) at %s: case %s, job removed first: %s' % (body.fn, 'NOT_FOUND' if is_127 else 'status', body.loc(s), case, removed))
        cx.cellcount(1)
        seen.add(case)
        if case == 'unknown':
            if not is_127:
                cx.violation(fn, 'cell:unknown', 'an unknown job must yield exit status 127', loc=body.loc(s))
        elif case == 'disowned':
            if not is_127 or not removed:
                cx.violation(fn, 'cell:disowned', 'a disowned job must be removed and yield 127', loc=body.loc(s))
        elif case == 'finished':
            if is_127 or not removed:
                cx.violation(fn, 'cell:finished', 'a finished job must be removed from the job list before its status is returned, '
                             'so that it is reported exactly once', loc=body.loc(s))
            o = du.origin(val)
            if not (o['k'] == 'call' and Q.callee_is(o['t'], [re.compile(r'Into<.*>>::into$'), re.compile(r'From<.*>>::from$')])
                    and 'ProcessResult' in ' '.join(o['t'].get('at', []))):
                cx.violation(fn, 'cell:finished-value', 'the reported status is not derived from the process result', loc=body.loc(s))
        elif case == 'stopped':
            jc = any(c[0]['k'] == 'call' and c[1] == ('bool', True) and Q.callee_is(c[0]['t'], [re.compile(r'Into<.*>>::into$')]) and
                     'State' in ' '.join(c[0]['t'].get('at', [])) for c in cs)
            if not jc:
                cx.violation(fn, 'cell:stopped-unguarded', 'a stopped job ends the wait although job control is off', loc=body.loc(s))
            if removed:
                cx.violation(fn, 'cell:stopped-removed', 'a stopped job is removed from the job list (it could never be resumed)',
                             loc=body.loc(s))
        else:
            cx.violation(fn, 'cell:unclassified', 'job_status returns Break in a case that is none of unknown / disowned / '
                         'finished / stopped', loc=body.loc(s))
    for need in ('unknown', 'disowned', 'finished', 'stopped'):
        if need not in seen:
            cx.violation(fn, 'cell-missing:%s' % need, 'job_status has no Break exit for the %s case' % need, loc=body.loc(body.d))
    # every remove is in the disowned or finished case
    for rb, rt in removes:
        cs = conds(F, body, du, rb)
        ok = any(c[0]['k'] == 'place' and c[1] == ('bool', False) and any(isinstance(e, dict) and e.get('f') == 'is_owned' for e in c[0]['pl'].get('p') or []) for c in cs)
        labsets = [{l[1] for _, l, e in cs if e == c[2]} for c in cs if c[0]['k'] == 'discr' and 'ProcessResult' in (c[0].get('ty') or '')]
        ok = ok or any(ls and ls <= {'Exited', 'Signaled'} for ls in labsets)
        cx.site('%s: jobs.remove at %s' % (body.fn, body.loc(rt)))
        if not ok:
            cx.violation(fn, 'remove-live-job', 'a job that is neither disowned nor finished is removed from the job list', loc=body.loc(rt))
    # wait_while_running
    wfn = 'yash_builtin::wait::status::wait_while_running'
    wb = F.main_body(wfn)
    cx.fn(wb.fn)
    du2 = Q.DefUse(wb)
    test = Q.find_calls(wb, ['core::ops::function::FnMut::call_mut', '*::FnMut::call_mut', '*::Fn::call', '*::FnOnce::call_once'])
    wait = Q.find_calls(wb, ['yash_builtin::wait::core::wait_for_any_job_or_trap'])
    cx.require(len(test) == 1 and len(wait) == 1, 'wait_while_running: test / wait calls not found')
    (tb, tt), (wtb, wtt) = test[0], wait[0]
    cx.site('%s: status test at %s, wait at %s' % (wb.fn, wb.loc(tt), wb.loc(wtt)))
    if not wb.dominates(tb, wtb):
        cx.violation(wfn, 'wait-before-test', 'the built-in waits before testing the job: waiting for an already finished job '
                     'blocks until some other child changes state', loc=wb.loc(wtt))
    oks = [(b, j, s) for b, j, s in Q.find_aggregates(wb, 'core::result::Result', 'Ok') if s['lhs']['l'] == 0]
    for b, j, s in oks:
        cs = conds(F, wb, du2, b)
        if not any(c[0]['k'] == 'discr' and c[0]['pl']['l'] == tt['dest']['l'] and only_label(cs, c, ('variant', 'Break')) for c in cs):
            cx.violation(wfn, 'ok-without-break', 'wait_while_running returns a status the job test did not produce', loc=wb.loc(s))
    wd = await_done(F, wb, du2, wtt)
    if wd is None:
        cx.violation(wfn, 'wait-not-awaited', 'wait_for_any_job_or_trap is not awaited', loc=wb.loc(wtt))
    else:
        p = Q.must_pass(wb, [wd], {tb}, goal_blocks={b for b, j, s in oks})
        if p or tb not in wb.reachable(wd):
            cx.violation(wfn, 'no-retest', 'after a wake-up the job is not tested again', loc=wb.loc(wtt))


# ----------------------------------------------------------------- R8
IS_STOPPED = [re.compile(r'^yash_env::job::Process(Result|State)::is_stopped$')]
IS_ALIVE = [re.compile(r'^yash_env::job::ProcessState::is_alive$')]


def _termination_evidence(F, body, du, blk, need_not_stopped):
    """Which facts about the child's state dominate `blk`: returns (not_running, not_stopped)."""
    cs = conds(F, body, du, blk)
    not_running = not_stopped = False
    for c in cs:
        org, lab = c[0], c[1]
        if org['k'] == 'discr' and 'ProcessState' in (org.get('ty') or '') and only_label(cs, c, ('variant', 'Halted')):
            not_running = True
        if org['k'] == 'discr' and 'ProcessResult' in (org.get('ty') or ''):
            labs = {l[1] for o2, l, e in cs if e == c[2]}
            if labs and labs <= {'Exited', 'Signaled'}:
                not_stopped = True
        if org['k'] == 'call' and Q.callee_is(org['t'], IS_STOPPED) and lab == ('bool', False):
            not_stopped = True
        if org['k'] == 'call' and Q.callee_is(org['t'], IS_ALIVE) and lab == ('bool', False):
            not_running = not_stopped = True
    return not_running, not_stopped


@RS.rule('C13.R8', 'K-GUARD', 'wait layers: wait_for_subshell_to_halt returns only a Halted state, wait_for_subshell_to_finish only an '
         'exited or killed child (a stopped child is still alive: it is awaited again, never reported as finished)')
def r8(cx):
    F = cx.F
    HALT = 'yash_env::Env::<S>::wait_for_subshell_to_halt'
    FIN = 'yash_env::Env::<S>::wait_for_subshell_to_finish'
    for fn, need_not_stopped in ((HALT, False), (FIN, True)):
        body = F.inlined(F.main_body(fn))
        cx.fn(body.fn)
        du = Q.DefUse(body)
        oks = [(b, j, s) for b, j, s in Q.find_aggregates(body, 'core::result::Result', 'Ok') if s['lhs']['l'] == 0]
        if not oks:
            cx.site('%s: no Ok(..) exit' % body.fn)
            cx.violation(fn, 'no-success-exit', '%s never returns a status' % fn, loc=body.loc(body.d))
            continue
        inner = Q.find_calls(body, WAITERS)
        cx.require(inner, '%s does not wait through the wait_for_subshell layers' % fn)
        halted_by_callee = any(pp.callee(t).endswith('wait_for_subshell_to_halt') for _, t in inner) and \
            not any(pp.callee(t).endswith('::wait_for_subshell') for _, t in inner)
        for b, j, s in oks:
            nr, ns = _termination_evidence(F, body, du, b, need_not_stopped)
            nr = nr or halted_by_callee
            cx.site('%s: Ok(..) at %s: child known not running: %s, known not stopped: %s' % (body.fn, body.loc(s), nr, ns))
            if not nr:
                cx.violation(fn, 'returns-running-child', 'the function can report a child that is still running (resumed) as halted: '
                             'the caller takes its "status" and stops waiting, the child is never reaped', loc=body.loc(s))
            if need_not_stopped and not ns:
                cx.violation(fn, 'returns-stopped-child', 'a stopped child is reported as finished: $? of a pipeline / subshell without job '
                             'control becomes 384+signal while the child is still alive, and nobody waits for it after it is continued '
                             '(zombie, wrong status)', loc=body.loc(s))
    # the command substitution does the same by hand
    CS = 'yash_semantics::expansion::initial::command_subst::expand_common'
    body = F.main_body(CS)
    cx.fn(body.fn)
    du = Q.DefUse(body)
    w = Q.find_calls(body, WAITERS)
    cx.require(w, 'command substitution does not wait for its subshell')
    fin = [t for _, t in w if pp.callee(t).endswith('wait_for_subshell_to_finish')]
    statuses = [(b, t) for b, t in Q.find_calls(body, [re.compile(r'From<yash_env::job::ProcessResult> for yash_env::semantics::ExitStatus>::from$'), re.compile(r'Into<.*>>::into$')])
                if 'ProcessResult' in ' '.join(t.get('at', []))]
    cx.site('%s: waits via %s; %d conversion(s) of the process result into $?' % (body.fn, sorted({pp.callee(t).split("::")[-1] for _, t in w}), len(statuses)))
    if not fin:
        if not statuses:
            cx.violation(CS, 'no-status', 'the command substitution does not derive its exit status from the awaited process result', loc=body.loc(w[0][1]))
        for b, t in statuses:
            nr, ns = _termination_evidence(F, body, du, b, True)
            if not ns:
                cx.violation(CS, 'returns-stopped-child', 'the command substitution takes the status of a merely stopped subshell as final',
                             loc=body.loc(t))


@RS.rule('C13.R9', 'K-ORDER', 'command substitution cannot deadlock with its child: the parent closes its write end, drains the pipe to EOF, '
         'and only then waits for the child')
def r9(cx):
    F = cx.F
    CS = 'yash_semantics::expansion::initial::command_subst::expand_common'
    body = F.main_body(CS)
    cx.fn(body.fn)
    du = Q.DefUse(body)
    read = Q.find_calls(body, ['*::ReadAll::read_all_to', '*::ReadAll::read_all'])
    wait = Q.find_calls(body, WAITERS)
    close_w = Q.calls_with_arg_named(body, ['*::Close::close'], 'writer', du)
    cx.require(wait, 'command substitution does not wait for its subshell')
    cx.site('%s: close(writer) %s, read-to-EOF %s, wait %s' % (body.fn, [body.loc(t) for _, t in close_w], [body.loc(t) for _, t in read],
                                                              [body.loc(t) for _, t in wait]))
    if not read:
        cx.violation(CS, 'no-read', 'the output of the command substitution is never read', loc=body.loc(wait[0][1]))
        return
    for b, t in Q.check_dominated(body, read, wait):
        cx.violation(CS, 'wait-before-read', 'the shell waits for the substituted command before it has read its output to EOF: a command '
                     'printing more than the pipe capacity blocks in write() while the shell blocks in wait() - a deadlock under every '
                     'schedule', loc=body.loc(t))
    for b, t in Q.check_dominated(body, close_w, read):
        cx.violation(CS, 'read-before-close-writer', 'the shell reads to EOF while still holding the write end of the pipe: EOF never '
                     'arrives, the shell hangs', loc=body.loc(t))


@RS.rule('C13.R7', 'K-TAINT', 'job numbers are sparse: the number of jobs is never used as a bound or value for job indices')
def r7(cx):
    F = cx.F
    LEN = ['yash_env::job::JobList::len']
    INDEXED = [Q.re.compile(r'^yash_env::job::JobList::(get|get_mut|remove|set_current_job|update_status)$'),
               Q.re.compile(r'Index<usize> for yash_env::job::JobList>::index$'), Q.re.compile(r'for yash_env::job::JobList>::index$')]
    users = F.callers_of(lambda names, t: Q.callee_is(t, LEN))
    # index-taking job list operations are the sites the rule protects (never vacuous)
    idx_sites = F.callers_of(lambda names, t: Q.callee_is(t, INDEXED))
    cx.floor(len(idx_sites), 8, 'index-taking JobList call sites')
    cx.site('JobList::len call sites: %d; index-taking JobList call sites: %d' % (len(users), len(idx_sites)))
    for b, blk, t in users:
        cx.fn(b.root)
        cx.site('%s: jobs.len() at %s' % (b.root, b.loc(t)))
        tainted = Q.forward_taint(b, {t['dest']['l']}, through_calls=[Q.re.compile(r'core::ops::arith::(Add|Sub)'), Q.re.compile(r'::(min|max|saturating_sub)$')])
        for sb, j, s in b.stmts():
            if s['k'] == 'assign' and s['rv']['k'] == 'agg' and 'core::ops::range::Range' in (s['rv'].get('adt') or ''):
                if any(Q.operand_local(o) in tainted for o in s['rv']['ops'] if Q.operand_local(o) is not None):
                    cx.violation(b.root, 'job-count-as-index-bound', 'a range bounded by the number of jobs is built: job indices keep their value '
                                 'while other jobs are removed, so a live job whose number is >= the count is skipped (e.g. `wait` returning '
                                 'while a child is still running)', loc=b.loc(s))
        for sb, st in b.calls():
            if Q.callee_is(st, INDEXED) and any(Q.operand_local(a) in tainted for a in st['a'][1:] if Q.operand_local(a) is not None):
                cx.violation(b.root, 'job-count-as-index', 'the number of jobs is used as a job index', loc=b.loc(st))
        for sb, j, s in b.stmts():
            # `index < jobs.len()`: the count used as the upper bound of valid job numbers
            if s['k'] == 'assign' and s['rv']['k'] == 'binop' and s['rv'].get('op') in ('Lt', 'Le', 'Gt', 'Ge'):
                ops = [s['rv'].get('a'), s['rv'].get('b')]
                if not all(isinstance(o, dict) for o in ops):
                    continue
                tl = [Q.operand_local(o) in tainted if Q.operand_local(o) is not None else False for o in ops]
                other_const = any('c' in o for o in ops)
                if any(tl) and not all(tl) and not other_const:
                    cx.violation(b.root, 'job-count-as-index-bound', 'a value is compared with the number of jobs to decide whether it is a valid '
                                 'job number: job numbers are sparse (a job keeps its number when lower-numbered jobs are removed), so `%3` of a '
                                 'live job is "not found" once job 1 is gone, and the vacated `%1` is accepted and then indexes a missing job',
                                 loc=b.loc(s))


# --- explanation addendum (generated catalogue in DESIGN.md reads RS.explanation)
RS.explanation += ' Added later: the wait layers return only halted / terminated children (R8); command substitution drains the pipe before waiting (R9).'


# ----------------------------------------------------------------- R10
UPDATE_ALL = 'yash_env::Env::<S>::update_all_subshell_statuses'
WAIT_ANY_JOB = 'yash_builtin::wait::core::wait_for_any_job_or_trap'
# who may ask the system for the status of "any child" (the answer is recorded in the job list only: the status of a
# child that is not a job is lost, as the documentation of update_all_subshell_statuses says)
ANY_CHILD_REAPERS = {
    UPDATE_ALL: 'the collector itself: wait(Pid::ALL) until nothing is left, each answer recorded in the job list',
    WAIT_ANY_JOB: 'the wait built-in: runs as a command of its own, when the shell holds no unawaited non-job child',
}
# who may call a collector: between two commands (C13.R5), and the job-control built-ins
COLLECTOR_CALLERS = {
    '<yash_syntax::syntax::Command as yash_semantics::command::Command<S>>::execute': 'after a command has finished (C13.R5)',
    'yash_semantics::runner::run_command': 'before a top-level command (C13.R5)',
}
COLLECTOR_CALLER_MODULES = re.compile(r'^yash_builtin::(wait|jobs)::')


def _target_class(body, du, operand):
    """'any' (Pid::ALL or a literal non-positive pid), 'param' (the caller's target, forwarded), 'value' (a pid computed here)."""
    if (operand.get('cdef') or '').endswith('Pid::ALL'):
        return 'any'
    o = du.origin(operand)
    for _ in range(4):
        if o['k'] == 'const':
            return 'any' if (o['o'].get('cdef') or '').endswith('Pid::ALL') else 'value'
        if o['k'] == 'agg' and (o['rv'].get('adt') or '').endswith('job::Pid'):
            c = (o['rv'].get('ops') or [{}])[0].get('c')
            try:
                return 'any' if c is not None and int(re.sub(r'_?i32$', '', str(c))) <= 0 else 'value'
            except ValueError:
                return 'value'
        if o['k'] == 'arg':
            return 'param'
        if o['k'] == 'place' and o['pl']['l'] == 1 and body.d.get('coroutine') and len(o['pl'].get('p') or []) == 1:
            return 'param'
        if o['k'] == 'place' and Q.is_plain(o['pl']):
            o2 = du.origin_place(o['pl'])
            if o2 == o:
                break
            o = o2
            continue
        break
    return 'value'


def _any_child_sites(F, body):
    """Call sites in `body` that collect the status of whichever child has one: wait(Pid::ALL), a collector,
    or the wait_for_subshell family asked for any child."""
    du = None
    out = []
    # a private helper that forwards its parameter to wait() is looked at in place: `self.poll_status(Pid::ALL)` is wait(any child)
    body = _with_wait_inlined(F, body)
    for b, t in body.calls():
        if Q.callee_is(t, [UPDATE_ALL, WAIT_ANY_JOB]):
            out.append((b, t, pp.callee(t).split('::')[-1]))
        elif Q.callee_is(t, WAIT) or Q.callee_is(t, WAITERS):
            du = du or Q.DefUse(body)
            pid = [a for a, ty in zip(t['a'], t.get('at', [])) if ty == 'yash_env::job::Pid'] or t['a'][1:2]
            if pid and _target_class(body, du, pid[0]) == 'any':
                out.append((b, t, '%s(any child)' % pp.callee(t).split('::')[-1]))
    return out


@RS.rule('C13.R10', 'K-CALLERS', 'while the shell waits for ONE child it collects no other: wait(any child) / update_all_subshell_statuses are called '
         'only between commands and by the job built-ins, never from the wait_for_subshell family or anything it calls (the status of a '
         'sibling that is not a job - a pipeline member - would be consumed and thrown away, its own wait(pid) then fails with ECHILD)')
def r10(cx):
    F = cx.F
    family = [fn for fn in F.fns if any(w.match(fn) for w in WAITERS)] if hasattr(F, 'fns') else []
    cx.require(len(family) == 3, 'the wait_for_subshell / _to_halt / _to_finish family of Env not found (%s)' % sorted(family))
    cx.require(UPDATE_ALL in F.bodies, 'Env::update_all_subshell_statuses not found')
    # (1) what the family reaches through resolved calls (its own closures included)
    parent = {}
    todo = list(family)
    seen = set(family)
    while todo:
        fn = todo.pop()
        for body in F.logical(fn):
            for b, t in body.calls():
                callee = t['f'].get('def') or ''
                root = F.bodies[callee].root if callee in F.bodies else None
                if root is None or not root.startswith(('yash_', '<yash_')) or root in seen or _is_delegate(F.bodies[callee]):
                    continue
                if root in ANY_CHILD_REAPERS:
                    continue            # the call of a collector is the site reported below, its inside is not another one
                seen.add(root)
                parent[root] = fn
                todo.append(root)
    cx.floor(len(seen), 6, 'functions reachable from the wait_for_subshell family')

    def chain(fn):
        out = [fn]
        while out[-1] in parent:
            out.append(parent[out[-1]])
        return ' <- '.join(x.split('::')[-1] for x in out)
    in_family = set()
    for fn in sorted(seen):
        for body in F.logical(fn):
            sites = _any_child_sites(F, body)
            for b, t, what in sites:
                in_family.add((body.fn, b))
                cx.site('%s (reached from the wait family: %s): %s at %s' % (body.fn, chain(fn), what, body.loc(t)))
                cx.violation(fn, 'collects-any-child-while-waiting:%s' % what.split('(')[0], 'while the shell waits for one particular child (%s) it '
                             'asks the system for the status of ANY child: a sibling that has already terminated and is not in the job list (a member '
                             'of the same pipeline) is reaped here and its status dropped; the pipeline\'s later wait for that member returns ECHILD '
                             '(panic "cannot receive exit status of child process") and $? depends on which member happens to exit first'
                             % chain(fn), loc=body.loc(t))
    for fn in family:
        b = _with_wait_inlined(F, F.main_body(fn))
        cx.fn(b.fn)
        du = Q.DefUse(b)
        tg = [(blk, t) for blk, t in b.calls() if Q.callee_is(t, WAIT) or Q.callee_is(t, WAITERS)]
        cx.site('%s: waits through %s; reaches %d function(s), none collects any child: %s' % (
            b.fn, ['%s(%s)' % (pp.callee(t).split('::')[-1], _target_class(b, du, ([a for a, ty in zip(t['a'], t.get('at', [])) if ty == 'yash_env::job::Pid'] or t['a'][1:2])[0]))
                   for _, t in tg], len(seen), not in_family))
        if not tg:
            cx.violation(fn, 'family-does-not-wait', '%s no longer waits through wait() / the lower wait layer' % fn, loc=b.loc(b.d))
        for blk, t in tg:
            pid = [a for a, ty in zip(t['a'], t.get('at', [])) if ty == 'yash_env::job::Pid'] or t['a'][1:2]
            if _target_class(b, du, pid[0]) != 'param':
                cx.violation(fn, 'waits-other-target', '%s does not wait for the target its caller named' % fn, loc=b.loc(t))
    # (2) inventory: every other place that collects any child is a reviewed one
    n = 0
    for body in F.bodies.values():
        if _is_delegate(body) or not body.root.startswith(('yash_', '<yash_')):
            continue
        for b, t, what in _any_child_sites(F, body):
            n += 1
            if (body.fn, b) in in_family:
                continue
            direct = Q.callee_is(t, WAIT) or Q.callee_is(t, WAITERS)
            ok = (body.root in ANY_CHILD_REAPERS) if direct else (body.root in COLLECTOR_CALLERS or COLLECTOR_CALLER_MODULES.match(body.root))
            cx.site('%s: %s at %s (%s)' % (body.root, what, body.loc(t), 'reviewed' if ok else 'NOT reviewed'))
            cx.fn(body.root)
            if not ok:
                cx.violation(body.root, 'unreviewed-any-child-collector:%s' % what.split('(')[0], 'a new place collects the status of whichever child '
                             'has one (%s): unless the shell holds no unawaited non-job child there (between two commands; the wait / jobs built-ins), '
                             'the status of a pipeline member or command substitution is lost and its wait(pid) fails with ECHILD' % what,
                             loc=body.loc(t))
    cx.floor(n, 4, 'sites that collect the status of any child')


RS.explanation += ' While one child is awaited no other is collected: wait(any child) / update_all_subshell_statuses have reviewed callers only and are unreachable from the wait_for_subshell family (R10).'


# ---------------------------------------------------------------------------------------
# added after the audit C13h2 #2 (fix: children forked while SIGCHLD was ignored were lost)
@RS.rule('C13.R1b', 'K-ORDER', 'the status of every child can be collected: the internal SIGCHLD disposition is installed (awaited, error '
         'propagated) BEFORE the child process is created - a child that terminates while SIGCHLD is ignored (`trap \'\' CHLD`, or '
         'inherited) is discarded by the kernel and the later wait() says ECHILD')
def r1b(cx):
    F = cx.F
    START = 'yash_env::subshell::config::Config::<S, F>::start'
    body = F.main_body('yash_env::subshell::config::Config::start')
    cx.fn(body.fn)
    forks = Q.find_calls(body, [re.compile(r'::run_in_child_process$'), re.compile(r'::new_child_process$')])
    cx.require(forks, 'Config::start no longer creates the child with run_in_child_process / new_child_process')
    arms = Q.find_calls(body, [re.compile(r'TrapSet::enable_internal_disposition_for_sigchld$')])
    du = Q.DefUse(body)
    for fb, ft in forks:
        ok = False
        for ab, at in arms:
            done = await_done(F, body, du, at)
            if done is not None and (body.dominates(done, fb) or done == fb):
                ok = True
        cx.site('Config::start: child created at %s; SIGCHLD handler installed (awaited) before: %s' % (body.loc(ft), ok))
        if not ok:
            cx.violation(body.root, 'fork-before-sigchld-handler', 'the child process is created before the shell has installed its SIGCHLD '
                         'handler: if SIGCHLD is ignored at that moment (`trap \'\' CHLD`, or a parent that started the shell with SIGCHLD '
                         'ignored) the kernel discards the status of a child that terminates quickly, `x=$(echo hi)` fails with "No child '
                         'processes" and a pipeline panics on the ECHILD', loc=body.loc(ft))


RS.explanation += ' The SIGCHLD handler is installed before a child is created (R1b).'
RS.explanation += (' Shape tolerance: a private same-module helper that polls wait() itself (wait once, record the answer, return it) is '
                   'analysed in place (R1, R5, R10); where the same wait() answer is tested twice (in the helper and again by its caller) '
                   'the path clauses of R1 follow only paths that are consistent for one answer.')


# C13.R11, shape tolerance: the report consumed inside a closure of an iterator chain
_R11_FIELD = 'process_state_changed'
_R11_SELECTORS = {'filter': re.compile(r'(^|::)iter::traits::iterator::Iterator::filter$'),
                  'filter_map': re.compile(r'(^|::)iter::traits::iterator::Iterator::filter_map$')}
_R11_NEXT = [re.compile(r'(^|::)iter::traits::iterator::Iterator::next$')]
_R11_FOR_EACH = [re.compile(r'(^|::)iter::traits::iterator::Iterator::for_each$')]


def _r11_reads_report(st):
    return st['k'] == 'assign' and st['rv']['k'] == 'use' and any(
        (pl.get('p') or []) and isinstance(pl['p'][-1], dict) and pl['p'][-1].get('f') == _R11_FIELD for pl in Q.rvalue_places(st['rv']))


def _r11_copies(c, seeds):
    """locals that hold an unmodified copy of one of the seed locals"""
    s = set(seeds)
    changed = True
    while changed:
        changed = False
        for _, _, st in c.stmts():
            if st['k'] == 'assign' and Q.is_plain(st['lhs']) and st['lhs']['l'] not in s and st['rv']['k'] == 'use':
                pl = Q.operand_place(st['rv']['o'])
                if pl is not None and Q.is_plain(pl) and pl['l'] in s:
                    s.add(st['lhs']['l'])
                    changed = True
    return s


def _r11_selector_kind(c, loc_, true_targets):
    """How the closure `c` hands the report (local loc_) to the iterator adapter it is given to:
    'filter'      its bool result IS the report (unmodified: a negated or combined flag is not accepted),
    'filter_map'  its Option result is Some on every path where the report is true,
    None          the report does not decide the closure's result in a recognised way."""
    ret_ty = c.locals[0].get('ty') or ''
    defs0 = [st for _, _, st in c.stmts() if st['k'] == 'assign' and st['lhs']['l'] == 0]
    calls0 = [t for _, t in c.calls() if t['dest']['l'] == 0]
    cp = _r11_copies(c, {loc_})
    if ret_ty == 'bool':
        if calls0 or not defs0:
            return None
        for st in defs0:
            if not Q.is_plain(st['lhs']):
                return None
            if _r11_reads_report(st):
                continue
            pl = Q.operand_place(st['rv']['o']) if st['rv']['k'] == 'use' else None
            if pl is None or not Q.is_plain(pl) or pl['l'] not in cp:
                return None
        return 'filter'
    if ret_ty.startswith('core::option::Option<'):
        # `if report { Some(parent) } else { None }`
        if true_targets:
            some = {blk for blk, _, st in c.stmts() if st['k'] == 'assign' and st['lhs']['l'] == 0 and Q.is_plain(st['lhs'])
                    and st['rv']['k'] == 'agg' and (st['rv'].get('adt') or '').endswith('option::Option') and st['rv'].get('variant') == 'Some'}
            # the Some must be the value returned: no later assignment of the result on the way out
            other = {blk for blk, _, st in c.stmts() if st['k'] == 'assign' and st['lhs']['l'] == 0 and blk not in some} | \
                    {t['to'] for _, t in c.calls() if t['dest']['l'] == 0 and t.get('to') is not None}
            if some and all(Q.must_pass(c, [tgt], some) is None for tgt in true_targets) and \
                    all(c.shortest_path(sb, set(other)) is None for sb in some if other):
                return 'filter_map'
            return None
        # `report.then_some(parent)` / `report.then(|| parent)`
        for t in calls0:
            if Q.callee_is(t, [re.compile(r'^core::bool::<impl bool>::then(_some)?$'), re.compile(r'(^|::)bool::then(_some)?$')]) and t['a']:
                pl = Q.operand_place(t['a'][0])
                if pl is not None and Q.is_plain(pl) and pl['l'] in cp and len(calls0) == 1 and not defs0:
                    return 'filter_map'
    return None


def _r11_closure_report(F, c, loc_, true_targets, notify_pats):
    """The report is read inside the closure `c`. A closure belongs to the function that creates it: when the closure selects the
    elements of an iterator (filter / filter_map) by the report, the elements that survive are the processes whose state changed,
    so the 'true edge' of the report is the Some edge of the `next()` of the chain built over that adapter (or the body of its
    for_each). Returns (verdict, text): verdict True = every consumer of the selected elements raises SIGCHLD, False = one does
    not, None = the shape is not recognised."""
    kind = _r11_selector_kind(c, loc_, true_targets)
    if kind is None:
        return None, 'the report does not decide the result of the closure in a recognised way'
    parent_fn = re.sub(r'::\{closure#\d+\}$', '', c.fn)
    if parent_fn == c.fn or parent_fn not in F.bodies:
        return None, 'the function that creates the closure was not found'
    P = F.bodies[parent_fn]
    made = [st['lhs']['l'] for _, _, st in P.stmts() if st['k'] == 'assign' and st['rv']['k'] == 'agg' and st['rv'].get('ak') == 'closure'
            and st['rv'].get('def') == c.fn and Q.is_plain(st['lhs'])]
    if len(made) != 1:
        return None, 'the creation of the closure was not found in %s' % parent_fn
    holders = _r11_copies(P, set(made))
    adapters = [(blk, t) for blk, t in P.calls() if any(Q.operand_local(a) in holders for a in t['a'][1:])]
    if not adapters or not all(Q.callee_is(t, _R11_SELECTORS[kind]) for _, t in adapters):
        return None, 'the closure is not handed to Iterator::%s (and only to it)' % kind
    notify = {nb for nb, _ in Q.find_calls(P, notify_pats)}
    verdicts = []
    for _, at in adapters:
        chain = Q.forward_taint(P, {at['dest']['l']})
        for blk, t in P.calls():
            if not t['a'] or Q.operand_local(t['a'][0]) not in chain:
                continue
            if Q.callee_is(t, _R11_NEXT):
                d = t['dest']['l']
                for u in P.live_blocks():
                    sw = P.term(u)
                    if sw['k'] != 'switch':
                        continue
                    dl = (Q.operand_place(sw['d']) or {}).get('l')
                    is_d = any(st['k'] == 'assign' and st['lhs']['l'] == dl and st['rv']['k'] == 'discr' and st['rv']['pl']['l'] == d
                               and Q.is_plain(st['rv']['pl']) for _, _, st in P.stmts())
                    if not is_d:
                        continue
                    some = [tgt for v, tgt in sw['ts'] if str(v) == '1']
                    if not some:
                        verdicts.append((None, 'next() at %s: no Some edge found' % P.loc(t)))
                    for tgt in some:
                        # one element = one process whose state changed: SIGCHLD before the next element is fetched / the function returns
                        goals = set(P.return_blocks()) | {blk}
                        ok = Q.must_pass(P, [tgt], notify, goals) is None
                        verdicts.append((ok, 'loop over the selected elements at %s' % P.loc(t)))
            elif Q.callee_is(t, _R11_FOR_EACH) and len(t['a']) == 2:
                cl = [st['rv'].get('def') for _, _, st in P.stmts() if st['k'] == 'assign' and st['rv']['k'] == 'agg' and st['rv'].get('ak') == 'closure'
                      and st['lhs']['l'] in _r11_copies_back(P, Q.operand_local(t['a'][1]))]
                if len(cl) == 1 and cl[0] in F.bodies:
                    fb = F.bodies[cl[0]]
                    fn_notify = {nb for nb, _ in Q.find_calls(fb, notify_pats)}
                    verdicts.append((Q.must_pass(fb, [0], fn_notify) is None, 'for_each over the selected elements at %s' % P.loc(t)))
                else:
                    verdicts.append((None, 'for_each at %s: closure not found' % P.loc(t)))
    if not verdicts:
        if not notify:
            return False, '%s selects the processes whose state changed and never raises SIGCHLD' % parent_fn
        return None, 'no loop / for_each over the elements selected by Iterator::%s found in %s' % (kind, parent_fn)
    if any(v is None for v, _ in verdicts):
        return None, '; '.join(w for v, w in verdicts if v is None)
    bad = [w for v, w in verdicts if not v]
    if bad:
        return False, '; '.join(bad)
    return True, 'Iterator::%s by the report in %s; %s' % (kind, parent_fn, '; '.join(w for _, w in verdicts))


def _r11_copies_back(P, local):
    """locals `local` is an unmodified copy of (itself included)"""
    s = {local}
    changed = True
    while changed:
        changed = False
        for _, _, st in P.stmts():
            if st['k'] == 'assign' and Q.is_plain(st['lhs']) and st['lhs']['l'] in s and st['rv']['k'] == 'use':
                pl = Q.operand_place(st['rv']['o'])
                if pl is not None and Q.is_plain(pl) and pl['l'] not in s:
                    s.add(pl['l'])
                    changed = True
    return s



# ---------------------------------------------------------------------------------------
# added after seed wave 4 (C13-s8: the simulated sigmask no longer told the parent that the caller was stopped / killed)
@RS.rule('C13.R11', 'K-PASS+K-SIBLING', 'a child that stops or dies is always reported to its parent: every operation of the simulated kernel that can change '
         'the state of a process (exit, kill, the delivery of a pending signal by sigmask or select) raises SIGCHLD for the parent on the path '
         'where the process reports that its state changed - otherwise a parent blocked in wait sleeps for ever (all four siblings agree)')
def r11(cx):
    F = cx.F
    import re as _re
    NOTIFY = [_re.compile(r'system::r#virtual::raise_sigchld$')]
    SETTERS = [_re.compile(r'process::Process::set_state$')]
    n = 0
    for root, bodies in sorted(F.by_root.items()):
        if not (root.startswith('yash_env::system::r#virtual') or 'r#virtual::VirtualSystem' in root):
            continue
        if '::process::Process::' in root or root.endswith('r#virtual::raise_sigchld') or '::tests::' in root:
            continue        # the process object reports; the kernel layer above it notifies
        for b in bodies:
            du = Q.DefUse(b)
            reports = []      # (block, local holding the report)
            for blk, j, st in b.stmts():
                if st['k'] == 'assign' and any(isinstance(e, dict) and e.get('f') == 'process_state_changed'
                                               for p_ in Q.rvalue_places(st['rv']) for e in (p_.get('p') or [])):
                    base = next(p_['l'] for p_ in Q.rvalue_places(st['rv']) if any(isinstance(e, dict) and e.get('f') == 'process_state_changed' for e in (p_.get('p') or [])))
                    reports.append((blk, st['lhs']['l'], b.loc(st), ('res', base)))
            for blk, t in Q.find_calls(b, SETTERS):
                reports.append((blk, t['dest']['l'], b.loc(t), ('set', blk)))
            if not reports:
                continue
            notify = {nb for nb, nt in Q.find_calls(b, NOTIFY)}
            handled = {}
            for blk, loc_, where, src in reports:
                n += 1
                cx.fn(b.fn)
                tl = Q.forward_taint(b, {loc_})
                # the True edge(s) of a switch on the report
                true_targets = []
                for u in b.live_blocks():
                    t_ = b.term(u)
                    if t_['k'] != 'switch':
                        continue
                    dl = (Q.operand_place(t_['d']) or {}).get('l')
                    if dl is None or dl not in tl or b.locals[dl].get('ty') != 'bool':
                        continue
                    # switchInt on a bool: the `else` edge (value != 0) is the true edge
                    zero = [tgt for v, tgt in t_['ts'] if str(v) in ('0', 'false')]
                    tgt_true = t_.get('else') if zero else None
                    if tgt_true is None:
                        tgt_true = next((tgt for v, tgt in t_['ts'] if str(v) in ('1', 'true')), None)
                    if tgt_true is not None:
                        true_targets.append(tgt_true)
                ok = bool(true_targets) and all(Q.must_pass(b, [tgt], notify) is None for tgt in true_targets)
                # (a function none of whose bodies raises SIGCHLD cannot act on the report anywhere: the plain verdict below stands)
                if not ok and b.fn != b.root and not notify and not b.d.get('coroutine') and any(Q.find_calls(x, NOTIFY) for x in bodies):
                    # the report is consumed inside a closure: it is acted upon where the function that creates the closure
                    # consumes what the closure selects (filter / filter_map over the results, then the SIGCHLD pass)
                    verdict, text = _r11_closure_report(F, b, loc_, true_targets, NOTIFY)
                    recognised = verdict is not None or not (0 in tl or true_targets)
                    cx.require(recognised, 'C13.R11: %s reads the state-change report inside a closure and hands it on in a shape that is '
                               'not analysed (%s): no verdict' % (b.fn, text))
                    if verdict is not None:
                        cx.site('%s: state-change report at %s read inside a closure: %s: %s' % (b.fn, where, text, verdict))
                        handled.setdefault(src, []).append((verdict, True, where))
                        continue
                cx.site('%s: state-change report at %s: parent notified (raise_sigchld) on every path after the report is true: %s'
                        % (b.fn, where, ok))
                handled.setdefault(src, []).append((ok, bool(true_targets), where))
            for src, lst in sorted(handled.items(), key=str):
                if any(ok_ for ok_, has_, w_ in lst):
                    continue        # one read of this report is acted upon (the others just hand the flag on)
                where = lst[0][2]
                true_targets = any(has_ for ok_, has_, w_ in lst)
                ok = False
                if not true_targets:
                    cx.violation(root, 'state-change-not-reported', '%s obtains the report "the state of the process changed" and never acts on it: '
                                 'the parent gets no SIGCHLD, so a shell blocked in wait / wait_for_subshell never learns that the child stopped or '
                                 'died (`trap .. USR1; cmd & kill -USR1 $!; wait $!` deadlocks when the signal is delivered on unblocking)' % root,
                                 loc=where)
                elif not ok:
                    cx.violation(root, 'state-change-without-sigchld', '%s can return after a process changed its state without raising SIGCHLD '
                                 'for the parent' % root, loc=where)
    cx.floor(n, 4, 'state-change reports handled by the simulated kernel (exit, kill, sigmask, select)')


RS.explanation += ' Every state change of a simulated process is followed by SIGCHLD for its parent (R11).'


# --- wave 5: a pipeline member that keeps the read end of its own output pipe never lets the next member see EOF, and the
# shell's wait loop for the pipeline never ends (seed C13-s10: with stdin and stdout closed in the shell, pipe() returns (0, 1))
from rules.C14 import r2 as _c14_pipeline_child_closes_every_pipe_end
from engine import Rule
RS.rules.append(Rule('C13.R12', 'K-PASS', 'every member of a pipeline closes the read end of its own output pipe on every path on which '
                     'that pipe exists, whatever descriptor numbers pipe() returned: otherwise the next member never sees EOF and the '
                     "shell waits for the pipeline's children for ever (C14.R2)", _c14_pipeline_child_closes_every_pipe_end))
RS.explanation += ' A pipeline member closes the read end of its own output pipe on every path (R12 = C14.R2), so the wait loop terminates.'


# ---------------------------------------------------------------------------------------
# wave 5 (seed C13-s9: exit_or_raise re-raised only the signals that terminate WITHOUT a core dump, so a subshell whose last
# command died of QUIT / ABRT / SEGV exited with the status truncated to 8 bits: the parent saw Exited(131), not Signaled)
_R13_ROOT = 'yash_env::semantics::exit_or_raise'
_R13_SEND = [re.compile(r'::SendSignal::(raise|kill)$')]
# reviewed conditions: callee producing the tested value -> (the only outcome under which the signal is sent, what it says)
_R13_REVIEWED = [
    (re.compile(r'^yash_env::semantics::ExitStatus::to_signal$'), None, ('Some',), 'the exit status maps to a signal'),
    (re.compile(r'(::parse$|FromStr>::from_str$)'), 'yash_env::signal::Name', ('Ok',), 'the signal has a name known to the shell'),
    (re.compile(r'::SignalEffect::of$'), None, ('Terminate',), 'the default action of the signal terminates the process'),
    (re.compile(r'::SetRlimit::setrlimit$'), None, ('Continue', 'Ok'), 'core dumps of the re-raising process were disabled'),
]


def _r13_constructors(F, bodies, fn):
    """(body, block) of every place of the family where `fn` is called or its closure / coroutine is built."""
    out = []
    for b in bodies:
        for blk, t in b.calls():
            f = t.get('f') or {}
            if fn in (f.get('def'), f.get('decl')) or any(isinstance(a, dict) and a.get('fn') == fn for a in t['a']):
                out.append((b, blk))
        for blk, j, st in b.stmts():
            if st['k'] == 'assign' and st['rv']['k'] == 'agg' and st['rv'].get('ak') in ('closure', 'coroutine') and st['rv'].get('def') == fn:
                out.append((b, blk))
    return out


def _r13_classify(F, body, du, org, lab):
    """(True, text) for a reviewed condition, (False, text, kind) for any other."""
    if org['k'] == 'discr':
        ty = org['ty']
        if ty.startswith('core::task::poll::Poll<'):
            return (lab == ('variant', 'Ready'), 'an awaited future is ready', 'extra')
        src = Q.value_source(body, du, {'cp': org['pl']}) if Q.is_plain(org['pl']) else None
        if src is not None:
            for pat, ty_has, outcomes, text in _R13_REVIEWED:
                if Q.callee_is(src, [pat]) and (ty_has is None or ty_has in ty):
                    if lab[0] == 'variant' and lab[1] in outcomes:
                        return (True, text)
                    return (False, '%s yields %s' % (pp.callee(src).split('::')[-1], lab[-1]), 'kind' if 'SignalEffect' in ty else 'extra')
            return (False, 'the %s outcome of %s' % (lab[-1], pp.callee(src)), 'kind' if 'ignal' in ty else 'extra')
        return (False, 'the discriminant of a value of type %s being %s' % (ty, lab[-1]), 'kind' if 'ignal' in ty else 'extra')
    if org['k'] == 'place':
        p = org['pl']
        lty = body.locals[p['l']].get('ty') or ''
        if not p.get('p') and lty == 'bool':
            # a materialised test (`matches!`, `let ok = a && b`): its content is among the implied conditions, classified on their own
            defs = [st for _, _, st in body.stmts() if st['k'] == 'assign' and st['lhs']['l'] == p['l'] and not st['lhs'].get('p')]
            cdefs = [t for _, t in body.calls() if t['dest']['l'] == p['l'] and not t['dest'].get('p')]
            consts = [str(st['rv']['o'].get('c')) for st in defs if st['rv']['k'] == 'use' and 'c' in st['rv']['o']]
            if defs and not cdefs and len(consts) == len(defs) and lab[0] == 'bool' \
                    and sum(1 for c in consts if (c == 'true') == lab[1]) == 1:
                return (True, 'materialised test (its single %s definition is examined through the implied conditions)' % str(lab[1]).lower())
            srcs = {Q.json.dumps(Q.operand_place(st['rv']['o']), sort_keys=True) if st['rv']['k'] == 'use' else None for st in defs}
            if defs and not cdefs and len(srcs) == 1 and None not in srcs and 'null' not in srcs:
                return (True, 'copy of another flag (examined on its own)')
        fields = [e['f'] for e in (p.get('p') or []) if isinstance(e, dict) and 'f' in e]
        nm = Q.operand_name(body, du, {'cp': p}) or body.local_name(p['l']) or '_%d' % p['l']
        what = 'the value of %s%s (type %s)' % (nm, ('.' + '.'.join(map(str, fields))) if fields and '.' not in str(nm) else '', lty)
        return (False, what, 'kind' if ('SignalEffect' in lty or 'signal::' in lty) else 'extra')
    if org['k'] == 'call':
        sty = ' '.join(str(x) for x in (org['t'].get('at') or []))
        return (False, 'the result of %s' % pp.callee(org['t']), 'kind' if ('ignal' in sty or 'ignal' in pp.callee(org['t'])) else 'extra')
    if org['k'] == 'unop' and org['rv'].get('op') == 'Not':
        # fail closed: the operand of a materialised negation is not followed by implied_conditions
        return (False, 'a negated value that is not one of the reviewed tests', 'extra')
    return (False, 'a computed value (%s)' % org['k'], 'extra')


@RS.rule('C13.R13', 'K-GUARD', 'a subshell whose last command was killed by a signal dies of that signal itself: in exit_or_raise the signal is '
         'sent to the own process for EVERY exit status that maps to a terminating signal - the only conditions on the way to the '
         'raise are the reviewed ones (to_signal is Some, the name parses, SignalEffect::of is Terminate, setrlimit succeeded); '
         'none looks at the kind of the signal (core dump, name, number), or the parent sees Exited(128+n) instead of Signaled')
def r13(cx):
    F = cx.F
    cx.require(_R13_ROOT in F.bodies, '%s not found' % _R13_ROOT)
    family = [F.bodies[f] for f in sorted(F.bodies) if f == _R13_ROOT or f.startswith(_R13_ROOT + '::')]
    inl = {}
    for b in family:
        try:
            inl[b.fn] = F.inlined(b)
        except Exception:
            inl[b.fn] = b
    bodies = [inl[b.fn] for b in family]
    cx.fn(_R13_ROOT)
    sends = [(b, blk, t) for b in bodies for blk, t in Q.find_calls(b, _R13_SEND)]
    if not sends:
        cx.site('%s and its nested functions: no SendSignal::raise / kill call' % _R13_ROOT)
        cx.violation(_R13_ROOT, 'signal-never-re-raised', 'exit_or_raise never sends a signal to the own process: a subshell whose last command '
                     'was killed by a signal exits normally with the status truncated to 8 bits (the parent sees 128+n, Exited, instead of '
                     '384+n, Signaled)')
        return
    # every send reaches the process itself only if an entry of exit_or_raise leads to it: walk up from the send to the entry of
    # the root (closure -> where it is built, nested async fn -> where it is called), classifying every dominating condition
    n = 0
    for sb, sblk, st_ in sends:
        seen = set()
        work = [(sb, sblk)]
        reached_root = False
        while work:
            b, blk = work.pop()
            if (b.fn, blk) in seen:
                continue
            seen.add((b.fn, blk))
            cx.fn(b.fn)
            du = Q.DefUse(b)
            for org, lab, edge in Q.implied_conditions(F, b, du, blk):
                res = _r13_classify(F, b, du, org, lab)
                n += 1
                cx.site('%s: the %s at %s is reached only when %s: reviewed=%s'
                        % (b.fn, pp.callee(st_).split('::')[-1], sb.loc(st_), res[1], res[0]))
                if res[0]:
                    continue
                if res[2] == 'kind':
                    cx.violation(_R13_ROOT, 'raise-depends-on-kind-of-signal', 'whether the subshell kills itself with the signal that killed '
                                 'its last command additionally depends on %s: for the signals excluded by that test (e.g. those whose '
                                 'default action dumps core: QUIT, ABRT, SEGV) the subshell exits with the status truncated to 8 bits, '
                                 'so `(sh -c \'kill -QUIT $$\'); echo $?` in a subshell of a subshell reports 131 / Exited instead of '
                                 '387 / Signaled' % res[1], loc=b.loc(b.term(edge[0])))
                else:
                    cx.violation(_R13_ROOT, 'extra-guard-on-raise', 'whether the subshell kills itself with the signal that killed its last '
                                 'command additionally depends on %s, which is not one of the reviewed conditions (status maps to a '
                                 'signal, known name, default action Terminate, core limit set): when it fails the parent sees a normal '
                                 'exit with a truncated status instead of a death by signal' % res[1], loc=b.loc(b.term(edge[0])))
            if b.fn == _R13_ROOT:
                reached_root = True
                continue
            up = _r13_constructors(F, bodies, b.fn)
            cx.require(up, 'C13.R13: no place in %s calls / builds %s, which contains (the way to) the %s call: no verdict'
                       % (_R13_ROOT, b.fn, pp.callee(st_)))
            work.extend(up)
        cx.require(reached_root, 'C13.R13: the chain from the %s call up to the entry of %s was not reconstructed' % (pp.callee(st_), _R13_ROOT))
    cx.floor(n, 4, 'conditions on the way to the raise in exit_or_raise (to_signal, name, effect, setrlimit)')


RS.explanation += (' A subshell that ends with a signal-killed status re-raises the signal whatever its kind: the raise in exit_or_raise '
                   'is dominated by the reviewed conditions only (R13).')
