"""C20 - built-in option syntax: equivalent spellings are accepted, and only those.

Decided here (structural clauses, DESIGN.md 4/C20): every option table given to the generic
parser is well-formed (unique names, every spec named, names within the POSIX guidelines);
in every built-in the set of option letters the handler compares equals the set of letters
of its table (every option has a handler, every handler an option; an `unreachable!()`
fallback can therefore not be reached); the generic parser has the structure the spelling
equivalences need (options until neither parser accepts, then one `--`, then operands;
exact long match before prefix candidates, exactly one candidate or an error; the
(argument spec x `=`) table; the attached/next-argument branch of short options); and every
registered built-in reaches the generic parser with the mode derived from the environment,
except the reviewed bespoke parsers.

Not decided: equivalence of spellings end-to-end (what each built-in does with the parsed
options), the bespoke parsers of set/kill/typeset/getopts/the command line beyond the clauses of
R5, R7-R14 (R13: which arguments the short/long option functions claim, on a finite domain of
sign prefixes; R14: the missing-option-argument error is decided by exhaustion alone)."""
from engine import RuleSet
import hirq as H
import mirq as Q
import re
from rules.C19 import (last, unwrap, hloc, callee, pat_keys, guarded_nodes, parents_of)

RS = RuleSet(
    'C20',
    explanation=(
        'Constant-table, decision-table and structure rules over yash-builtin: every table of option specs passed '
        'to common::syntax::parse_arguments (and the typeset table) is evaluated from its initialiser: short names '
        'are unique single alphanumerics, long names unique and free of `=`/leading `-`, every spec has a name, the '
        'argument spec is an explicit constant; per built-in, the option letters compared with spec.get_short() in '
        'its handler are exactly the letters of its table, so no accepted option is silently ignored or reaches an '
        'unreachable!() arm and no handler arm is dead; parse_arguments consumes options in a loop that is left only '
        'when parse_short_options returned false and parse_long_option returned None, then drops a single "--" '
        'outside the loop, then collects the operands; long_match returns an exact match from inside the scan and '
        'otherwise succeeds only for exactly one prefix candidate; OptionSpec::long_match compares prefix then '
        'length; parse_long_option implements the four cells of (argument spec x `=` present) and the '
        'unknown/ambiguous/non-portable classification; parse_short_options takes an attached remainder or the next '
        'argument for an option that requires one and stops scanning the group there; every registered built-in '
        'reaches parse_arguments, each call site passing Mode::with_env(env), or is a reviewed bespoke parser.'),
    not_decided='that equivalent spellings produce identical output/exit status/effects end-to-end; the bespoke parsers '
                '(set, kill, typeset/export/readonly short/long/+ options, getopts operands, yash-cli startup arguments) '
                'beyond table well-formedness; diagnostics text',
    trusted=['POSIX XBD 12.2 utility syntax guidelines 3-10 as transcribed in the checks of rules/C20.py'],
    assumptions=['a handler is recognised by a comparison of spec.get_short() with character literals (match arms, '
                 '==, matches!, assert macros) inside the module of the built-in'],
)

CS = 'yash_builtin::common::syntax::'
PARSE_ARGUMENTS = CS + 'parse_arguments'
OPTION_SPEC = CS + 'OptionSpec'
TYPESET_SPEC = 'yash_builtin::typeset::syntax::OptionSpec'


def is_test(fn):
    return '::tests::' in fn or fn.endswith('::tests')


def module_of(fn):
    """Top module of a built-in: yash_builtin::<name>."""
    parts = fn.replace('r#', '').split('::')
    return parts[1] if len(parts) > 1 else ''


# ------------------------------------------------------------------ option tables
def eval_spec(v):
    """Builder chain OptionSpec::new().short(c).long(s).argument(A).extension(b) (as evaluated by
    H.const_eval) -> dict, or None if the value is not such a chain."""
    spec = {'short': None, 'long': None, 'argument': 'None', 'extension': False, 'explicit': True}
    while True:
        if not (isinstance(v, tuple) and v and v[0] == 'call' and isinstance(v[1], str) and v[1].startswith(OPTION_SPEC)):
            return None
        m = last(v[1])
        args = v[2]
        if m == 'new' and not args:
            return spec
        if m in ('short', 'long', 'argument', 'extension') and len(args) == 2:
            val = args[1]
            if m == 'argument':
                if isinstance(val, tuple) and val[0] == 'path' and '::OptionArgumentSpec::' in val[1]:
                    val = last(val[1])
                else:
                    spec['explicit'] = False
            elif m == 'short' and not (isinstance(val, str) and len(val) == 1):
                spec['explicit'] = False
            elif m == 'long' and not isinstance(val, str):
                spec['explicit'] = False
            elif m == 'extension' and not isinstance(val, bool):
                spec['explicit'] = False
            # the outermost call is applied last and wins: record only the first one met per field
            if ('_set_' + m) not in spec:
                spec[m] = val
                spec['_set_' + m] = True
            v = args[0]
            continue
        return None


def eval_typeset_spec(F, v):
    if isinstance(v, tuple) and v and v[0] == 'path' and v[1] in F.hir:
        v = H.const_eval(F.hir[v[1]]['body'])
    if isinstance(v, tuple) and v and v[0] == 'struct' and v[1] == TYPESET_SPEC:
        f = v[2]
        return {'short': f.get('short'), 'long': f.get('long'), 'argument': 'None', 'extension': False,
                'explicit': isinstance(f.get('short'), str) and isinstance(f.get('long'), str)}
    return None


def eval_table(F, node):
    """Array of specs -> list of dicts, or None if any element is not a spec."""
    v = H.const_eval(node)
    if not isinstance(v, list):
        return None
    out = []
    for e in v:
        s = eval_spec(e)
        if s is not None:
            s['kind'] = 'common'
        else:
            s = eval_typeset_spec(F, e)
            if s is not None:
                s['kind'] = 'typeset'
        if s is None:
            return None
        out.append(s)
    return out


def parse_calls(F):
    """[(fn, hir, call node)] of every non-test call of parse_arguments."""
    out = []
    for fn, h in F.hir.items():
        if not fn.startswith('yash_builtin::') or is_test(fn) or fn.startswith(CS):
            continue
        for c in H.calls(h['body']):
            if callee(c) == PARSE_ARGUMENTS:
                out.append((fn, h, c))
    return out


def tables(cx):
    """{const path: (hir, [spec dicts])} of every option table, plus the inline tables at call sites
    as {('inline', fn): ...}."""
    F = cx.F
    out = {}
    for k, h in F.hir.items():
        if not k.startswith('yash_builtin::') or is_test(k) or not h['kind'].startswith('Const'):
            continue
        t = eval_table(F, h['body'])
        if t:                       # non-empty and every element a spec
            out[k] = (h, t)
    for fn, h, c in parse_calls(F):
        a = unwrap(c['a'][0])
        if a.get('k') == 'path' and a.get('def') in F.hir:
            d = a['def']
            if d not in out:
                t = eval_table(F, F.hir[d]['body'])
                cx.require(t is not None, 'option table %s passed to parse_arguments in %s cannot be evaluated' % (d, fn))
                out[d] = (F.hir[d], t)
        elif a.get('k') == 'array':
            t = eval_table(F, a)
            cx.require(t is not None, 'inline option table in %s cannot be evaluated' % fn)
            out[('inline', fn)] = (h, t)
        else:
            cx.require(False, 'parse_arguments in %s is given a table that is neither a constant nor an array literal' % fn)
    return out


def _name(k):
    return k if isinstance(k, str) else 'inline table in %s' % k[1]


@RS.rule('C20.R1', 'K-CONST', 'every option table is well-formed: unique short and long names, every spec named, names within the POSIX guidelines')
def r1(cx):
    F = cx.F
    tabs = tables(cx)
    named = [k for k in tabs if isinstance(k, str)]
    cx.floor(len(named), 14, 'option table constants')
    for k in sorted(tabs, key=_name):
        h, specs = tabs[k]
        fn = _name(k)
        cx.site('%s: %d specs: %s' % (fn, len(specs), ' '.join('-%s/--%s%s' % (s['short'] or '', s['long'] or '', '=' if s['argument'] == 'Required' else '') for s in specs)))
        cx.cellcount(len(specs))
        loc = hloc(h)
        key = k if isinstance(k, str) else k[1]
        seen_s, seen_l = {}, {}
        for i, s in enumerate(specs):
            label = '-%s' % s['short'] if s['short'] else ('--%s' % s['long'] if s['long'] else '#%d' % i)
            if not s['explicit']:
                cx.violation(key, 'computed:%s' % label, 'option %s of %s has a name or argument spec that is not a literal constant' % (label, fn), loc=loc)
                continue
            if s['short'] is None and s['long'] is None:
                cx.violation(key, 'unnamed:#%d' % i, 'spec #%d of %s has neither a short nor a long name: it can never be selected' % (i, fn), loc=loc)
            if s['short'] is not None:
                c = s['short']
                if not (c.isascii() and c.isalnum()):
                    cx.violation(key, 'short-name:%s' % label, 'short option name %r is not a single alphanumeric character (guideline 3); '
                                 '`-` would make `--` ambiguous' % c, loc=loc)
                if c in seen_s:
                    cx.violation(key, 'duplicate-short:%s' % c, 'short option -%s is declared twice in %s: the second spec can never be '
                                 'selected by its short name' % (c, fn), loc=loc)
                seen_s[c] = i
            if s['long'] is not None:
                l = s['long']
                if not l or l.startswith('-') or '=' in l or any(ch.isspace() for ch in l):
                    cx.violation(key, 'long-name:%s' % label, 'long option name %r is empty, starts with `-`, or contains `=`/space: '
                                 '`--name=value` could not be split' % l, loc=loc)
                if l in seen_l:
                    cx.violation(key, 'duplicate-long:%s' % l, 'long option --%s is declared twice in %s: it is ambiguous with itself '
                                 'unless spelled exactly, and then only the first spec is selected' % (l, fn), loc=loc)
                seen_l[l] = i
            if s['argument'] not in ('None', 'Required'):
                cx.violation(key, 'argument-spec:%s' % label, 'unknown argument spec %s' % (s['argument'],), loc=loc)
    cx.sample({'tables': len(tabs), 'example': {_name(k): [s['short'] for s in v[1]] for k, v in list(tabs.items())[:3]}})


# ------------------------------------------------------------------ R2 handlers
def _chars(node_or_pat):
    """Character literals in an expression or pattern subtree."""
    out = set()
    stack = [node_or_pat]
    while stack:
        x = stack.pop()
        if isinstance(x, dict):
            if x.get('k') == 'lit' and x.get('t') == 'char':
                out.add(x.get('v'))
            for v in x.values():
                if isinstance(v, (dict, list)):
                    stack.append(v)
        elif isinstance(x, list):
            stack.extend(x)
    return out


def _has_get_short(node):
    return any(x.get('k') == 'mcall' and x.get('name') == 'get_short' and callee(x).startswith(OPTION_SPEC) for x in H.walk(node))


def _direct_get_short(node):
    n = unwrap(node)
    if n.get('k') == 'mcall' and n.get('name') == 'unwrap':
        n = unwrap(n['recv'])
    return n.get('k') == 'mcall' and n.get('name') == 'get_short' and callee(n).startswith(OPTION_SPEC)


def _panics(body):
    return any(x.get('k') == 'call' and callee(x).startswith('core::panicking::') for x in H.walk(body))


def handler_facts(h):
    """(strict matches, loose literal set, generic?) for one function.
    strict match: `match <spec>.get_short()[.unwrap()]` whose catch-all arm panics -> set of literals;
    generic: such a match whose catch-all arm does something else (handles every other letter)."""
    strict, loose, generic = [], set(), False
    for x in H.walk(h['body']):
        k = x.get('k')
        if k == 'match' and _has_get_short(x['scrut']):
            lits = set()
            for arm in x['arms']:
                lits |= _chars(arm['pat'])
            lits |= _chars(x['scrut'])
            loose |= lits
            if _direct_get_short(x['scrut']) and not x.get('exp'):
                catch = [arm for arm in x['arms'] if pat_keys(arm['pat']) == ['_'] and not arm.get('guard')]
                if catch and _panics(catch[-1]['body']):
                    strict.append((x, lits))
                elif catch:
                    generic = True
        elif k == 'binary' and x.get('op') in ('==', '!=') and (_has_get_short(x['a']) or _has_get_short(x['b'])):
            loose |= _chars(x['a']) | _chars(x['b'])
        elif k == 'letexpr' and _has_get_short(x['init']):
            loose |= _chars(x['pat'])
    return strict, loose, generic


@RS.rule('C20.R2', 'K-TABLE', 'per built-in, the option letters its handler compares are exactly the letters of its option table')
def r2(cx):
    F = cx.F
    tabs = tables(cx)
    by_mod = {}
    for k, (h, specs) in tabs.items():
        if isinstance(k, str) and specs and all(s['kind'] == 'common' for s in specs):
            by_mod.setdefault(module_of(k), []).append((k, h, specs))
    # tables passed to parse_arguments that are empty still define a module with an empty letter set
    for fn, h, c in parse_calls(F):
        by_mod.setdefault(module_of(fn), [])
    fns_by_mod = {}
    for fn, h in F.hir.items():
        if fn.startswith('yash_builtin::') and not is_test(fn) and not fn.startswith(CS) and h['kind'] in ('Fn', 'AssocFn', 'Closure'):
            fns_by_mod.setdefault(module_of(fn), []).append((fn, h))
    n_strict = 0
    for mod in sorted(by_mod):
        tl = by_mod[mod]
        letters = {s['short'] for k, h, specs in tl for s in specs if s['short']}
        nameless = [s['long'] for k, h, specs in tl for s in specs if not s['short']]
        strict_all, loose_all, generic = [], set(), False
        for fn, h in fns_by_mod.get(mod, []):
            st, lo, ge = handler_facts(h)
            for m, lits in st:
                strict_all.append((fn, h, m, lits))
            if lo or st:
                cx.fn(fn)
            loose_all |= lo
            generic = generic or ge
        cx.site('%s: table letters {%s}; compared {%s}; %d exhaustive match(es)%s' % (
            mod, ''.join(sorted(letters)), ''.join(sorted(loose_all)), len(strict_all), '; generic arm' if generic else ''))
        cx.cellcount(max(1, len(letters)))
        loc = hloc(tl[0][1]) if tl else None
        anchor = tl[0][0] if tl else 'yash_builtin::%s' % mod
        for fn, h, m, lits in strict_all:
            n_strict += 1
            for c in sorted(letters - lits):
                cx.violation(fn, 'unhandled:%s:-%s' % (mod, c), 'the %s built-in accepts -%s (it is in the option table) but the handler '
                             'has no arm for it and falls into unreachable!(): the shell panics' % (mod, c), loc=hloc(h, m))
            for c in sorted(lits - letters):
                cx.violation(fn, 'dead-arm:%s:-%s' % (mod, c), 'the %s handler has an arm for -%s, which is not in the option table: the '
                             'option is rejected as unknown before the arm can run' % (mod, c), loc=hloc(h, m))
            if nameless:
                cx.violation(fn, 'long-only:%s' % mod, 'options %s have no short name but the handler dispatches on get_short() with an '
                             'unreachable!() fallback' % nameless, loc=hloc(h, m))
        for c in sorted(loose_all - letters):
            if any(c in lits for _, _, _, lits in strict_all):
                continue
            cx.violation(anchor, 'dead-compare:%s:-%s' % (mod, c), 'the %s built-in tests for option -%s, which is not in its option '
                         'table: the test can never succeed' % (mod, c), loc=loc)
        if generic:
            # the catch-all arm maps the remaining letters through a letter-valued function of the module
            # (ulimit: ResourceExt::option): its image must be exactly the letters not compared literally
            pattern_lits = set()
            for fn, h in fns_by_mod.get(mod, []):
                for x in H.walk(h['body']):
                    if x.get('k') == 'match':
                        for arm in x['arms']:
                            pattern_lits |= _chars(arm['pat'])
            image = set()
            for decl, sig in F.fns.items():
                if module_of(decl) == mod and sig.get('output') == 'char' and not is_test(decl):
                    defs = [decl] + [it['def'] for i in F.impls if i.get('trait_def') == decl.rsplit('::', 1)[0]
                                     for it in i['items'] if it.get('name') == last(decl) and it.get('def')]
                    for d in defs:
                        if d in F.hir:
                            cx.fn(d)
                            for x in H.walk(F.hir[d]['body']):
                                if x.get('k') == 'match':
                                    for arm in x['arms']:
                                        image |= {c for c in _chars(arm['body']) if c != '\0'}
            rest = letters - pattern_lits
            cx.site('%s: letters mapped by the generic arm {%s}; image of the letter-valued mapping {%s}' % (mod, ''.join(sorted(rest)), ''.join(sorted(image))))
            for c in sorted(rest - image):
                cx.violation(anchor, 'unmapped:%s:-%s' % (mod, c), 'the %s built-in accepts -%s but the generic arm cannot map it to anything '
                             '(no value of the letter-valued mapping equals it): the lookup fails at run time' % (mod, c), loc=loc)
            for c in sorted(image - letters):
                cx.violation(anchor, 'no-option:%s:-%s' % (mod, c), 'the %s built-in maps something to the letter -%s, which is not in its option '
                             'table: that item cannot be selected' % (mod, c), loc=loc)
        else:
            reported = {c for _, _, _, lits in strict_all for c in letters - lits}
            for c in sorted(letters - loose_all - reported):
                cx.violation(anchor, 'ignored:%s:-%s' % (mod, c), 'the %s built-in accepts -%s (it is in the option table) but nothing ever '
                             'looks at it: the option is silently ignored' % (mod, c), loc=loc)
    cx.floor(n_strict, 5, 'handlers with an unreachable!() fallback')


# ------------------------------------------------------------------ R3 generic parser
def _variants_built(node, enum_prefix):
    return {last(callee(x)) for x in H.walk(node) if x.get('k') == 'call' and x.get('ctor') and callee(x).startswith(enum_prefix)} | \
           {last(x.get('def')) for x in H.walk(node) if x.get('k') == 'path' and (x.get('def') or '').startswith(enum_prefix)}


def _calls_named(node):
    return {last(callee(x)) for x in H.calls(node)}


def _kinds(node):
    return {x.get('k') for x in H.walk(node)}


# ---- path-sensitive reading of a loop-free MIR body: the decisions of a function as a table over the values it tests,
# independent of how the tests are spelled (guard / named condition + early return / tuple match / nested matches /
# is_none + return / let-else / match)
class _Undecidable(Exception):
    pass


class _Need(Exception):
    def __init__(self, atom, domain):
        self.atom, self.domain = atom, domain


_PREDS = {'is_some': ('Some', True), 'is_none': ('Some', False), 'is_ok': ('Ok', True), 'is_err': ('Ok', False)}


def _freeze(v):
    return repr(v)


class _Paths:
    """Enumerate the entry-to-return paths of a loop-free body. Every value a switch tests is traced to *atoms*: results
    of calls (named by the last segment of the callee) and fields of arguments (named by the field). A path = the
    values it assumed for the atoms it looked at, the calls it made, the aggregates it built, the value it returns."""

    def __init__(self, F, body, limit=4000):
        self.F, self.body, self.limit = F, body, limit
        self.paths = []

    # -- values: ('const', text) ('atom', name) ('not', v) ('pred', variant, polarity, v) ('proj', v, key)
    #            ('tuple', [v]) ('adt', path, variant, {field: v}) ('binop', op, a, b) ('unk', id)
    def place(self, st, p):
        l = p['l']
        v = st['env'].get(l)
        if v is None:
            if 1 <= l <= self.body.argc:
                v = ('arg', self.body.local_name(l))
            else:
                v = ('unk', 'local%d' % l)
        for pr in p.get('p') or []:
            if pr == '*':
                continue
            if isinstance(pr, dict) and 'f' in pr:
                if v[0] == 'tuple' and pr['f'].isdigit() and int(pr['f']) < len(v[1]):
                    v = v[1][int(pr['f'])]
                elif v[0] == 'adt' and pr['f'] in v[3]:
                    v = v[3][pr['f']]
                elif v[0] == 'arg':
                    v = self.atom(st, pr['f'], ('field', v[1], pr['f']), pr.get('ty') or '')
                else:
                    v = ('proj', v, 'f:' + pr['f'])
            elif isinstance(pr, dict) and 'v' in pr:
                v = ('proj', v, 'v:' + str(pr['v']))
            else:
                v = ('proj', v, 'other:' + _freeze(pr))
        return v

    def operand(self, st, o):
        if 'cp' in o or 'mv' in o:
            return self.place(st, o.get('cp') or o.get('mv'))
        if 'fn' in o:
            return ('fn', o['fn'])
        return ('const', str(o.get('c')))

    def atom(self, st, name, key, ty):
        k = _freeze(key)
        if k not in st['atoms']:
            n = sum(1 for a in st['atoms'].values() if a.split('#')[0] == name)
            st['atoms'][k] = name if n == 0 else '%s#%d' % (name, n + 1)
            st['types'][st['atoms'][k]] = ty
        return ('atom', st['atoms'][k])

    def rvalue(self, st, rv, where):
        k = rv['k']
        if k == 'use':
            return self.operand(st, rv['o'])
        if k == 'ref':
            return self.place(st, rv['pl'])          # references are transparent on a straight-line path
        if k == 'cast':
            return self.operand(st, rv['o'])
        if k == 'discr':
            return ('discr', self.place(st, rv['pl']), rv.get('ty') or '')
        if k == 'unop' and rv.get('op') == 'Not':
            return ('not', self.operand(st, rv['o']))
        if k == 'binop':
            return ('binop', rv.get('op'), self.operand(st, rv['a']), self.operand(st, rv['b']))
        if k == 'agg':
            ops = [self.operand(st, o) for o in rv.get('ops') or []]
            if rv.get('ak') == 'tuple':
                return ('tuple', ops)
            if rv.get('ak') == 'adt':
                v = ('adt', rv.get('adt'), rv.get('variant'), dict(zip(rv.get('fields') or [], ops)))
                st['built'].append(v)
                return v
        return ('unk', where)

    # -- deciding a tested value
    def variant_of(self, st, v, ty):
        """Variant name held by enum value v."""
        if v[0] == 'adt':
            return v[2]
        if v[0] == 'atom':
            if v[1] in st['assign']:
                return st['assign'][v[1]]
            names = Q.variant_names(self.F, st['types'].get(v[1]) or ty)
            if not names:
                raise _Undecidable('enum type of %s unknown' % v[1])
            raise _Need(v[1], names)
        raise _Undecidable('an enum value that is neither built nor the result of a call is tested: %s' % (v,))

    def truth(self, st, v):
        if v[0] == 'const' and v[1] in ('true', 'false'):
            return v[1] == 'true'
        if v[0] == 'not':
            return not self.truth(st, v[1])
        if v[0] == 'pred':
            return (self.variant_of(st, v[3], '') == v[1]) == v[2]
        if v[0] == 'atom':
            if v[1] in st['assign']:
                return st['assign'][v[1]]
            if st['types'].get(v[1]) != 'bool':
                raise _Undecidable('%s is tested as a flag but is not a bool' % v[1])
            raise _Need(v[1], [False, True])
        raise _Undecidable('a flag of unknown origin is tested: %s' % (v,))

    def target(self, st, t):
        v = self.operand(st, t['d'])
        if v[0] == 'discr':
            names = Q.variant_names(self.F, v[2])
            nm = self.variant_of(st, v[1], v[2])
            if not names or nm not in names:
                raise _Undecidable('variants of %s unknown' % v[2])
            val = names.index(nm)
        elif t.get('dty') == 'bool':
            val = int(self.truth(st, v))
        else:
            raise _Undecidable('an integer switch on %s' % (v,))
        for x, tgt in t['ts']:
            if x == val:
                return tgt
        return t['else']

    def run(self):
        st0 = dict(env={}, atoms={}, types={}, assign={}, calls=[], built=[], seen=frozenset(), b=0)
        work = [st0]
        while work:
            if len(self.paths) + len(work) > self.limit:
                raise _Undecidable('too many paths')
            st = work.pop()
            self.walk(st, work)
        return self.paths

    def fork(self, st):
        n = dict(st)
        n['env'] = dict(st['env'])
        n['atoms'] = dict(st['atoms'])
        n['types'] = dict(st['types'])
        n['assign'] = dict(st['assign'])
        n['calls'] = list(st['calls'])
        n['built'] = list(st['built'])
        return n

    def walk(self, st, work):
        body = self.body
        while True:
            b = st['b']
            if b in st['seen']:
                raise _Undecidable('loop through bb%d' % b)
            st['seen'] = st['seen'] | {b}
            blk = body.blocks[b]
            for j, s in enumerate(blk['s']):
                if s['k'] == 'assign':
                    v = self.rvalue(st, s['rv'], 'bb%d.%d' % (b, j))
                    if not s['lhs'].get('p'):
                        st['env'][s['lhs']['l']] = v
                    # writes through projections are not modelled: the base keeps its value
            t = blk['t']
            k = t['k']
            if k == 'return':
                st['ret'] = st['env'].get(0, ('unk', 'ret'))
                self.paths.append(st)
                return
            if k in ('goto', 'drop', 'assert', 'falseedge', 'falseunwind'):
                if t.get('to') is None:
                    return
                st['b'] = t['to']
                continue
            if k == 'call':
                args = [self.operand(st, a) for a in t['a']]
                name = last(re.sub(r'::<[^>]*>', '', (t['f'].get('def') or t['f'].get('decl') or '?')))
                st['calls'].append((name, args, t))
                if name in _PREDS and len(args) == 1:
                    v = ('pred', _PREDS[name][0], _PREDS[name][1], args[0])
                else:
                    mutating = any((ty or '').startswith('&mut') for ty in t.get('at') or [])
                    key = ('call', name, ('bb%d' % b) if mutating else [_freeze(a) for a in args])
                    v = self.atom(st, name, key, t.get('dty') or '')
                if not t['dest'].get('p'):
                    st['env'][t['dest']['l']] = v
                if t.get('to') is None:
                    return                      # diverges
                st['b'] = t['to']
                continue
            if k == 'switch':
                try:
                    st['b'] = self.target(st, t)
                    # the block is left: allow the decision to be re-taken on the forks only
                    continue
                except _Need as need:
                    for val in need.domain:
                        n = self.fork(st)
                        n['assign'][need.atom] = val
                        n['seen'] = st['seen'] - {b}
                        # re-enter this block: its statements are idempotent on the environment
                        work.append(n)
                    return
            if k == 'unreachable':
                return
            raise _Undecidable('terminator %s' % k)


def _long_option_expected(a):
    """What parse_long_option must do, as a function of the values it can look at."""
    if a['next_if'] == 'None':
        return ('no-option', None)
    if a['long_match'] == 'Err':
        return ('error', 'UnknownLongOption' if a['is_empty'] else 'AmbiguousLongOption')
    if not (a['long_option_names'] and (a['extension_options'] or not a['is_extension'])):
        return ('error', 'NonPortableLongOption')
    if a['get_argument'] == 'None':
        return ('error', 'UnexpectedOptionArgument') if a['find'] == 'Some' else ('option', 'None')
    if a['find'] == 'Some':
        return ('option', 'Some')
    return ('option', 'Some') if a['next'] == 'Some' else ('error', 'MissingOptionArgument')


_LONG_ATOMS = {'next_if': ['None', 'Some'], 'find': ['None', 'Some'], 'long_match': ['Ok', 'Err'], 'is_empty': [False, True],
               'long_option_names': [False, True], 'extension_options': [False, True], 'is_extension': [False, True],
               'get_argument': ['None', 'Required'], 'next': ['None', 'Some']}


def _path_outcome(st, err_adt, occ_adt):
    """('error', variant) | ('option', 'None'|'Some'|?) | ('no-option', None) | None from the returned value of a path."""
    def opt(v):
        if v[0] == 'adt' and v[1] == 'core::option::Option':
            return v[2]
        if v[0] == 'atom' and st['assign'].get(v[1]) in ('None', 'Some'):
            return st['assign'][v[1]]
        return None
    r = st.get('ret')
    if not r or r[0] != 'adt' or r[1] != 'core::result::Result':
        return None
    inner = list(r[3].values())
    if len(inner) != 1:
        return None
    x = inner[0]
    if r[2] == 'Err':
        return ('error', x[2]) if x[0] == 'adt' and x[1] == err_adt else None
    o = opt(x)
    if o == 'None':
        return ('no-option', None)
    if o == 'Some' and x[0] == 'adt':
        occ = list(x[3].values())[0]
        if occ[0] == 'adt' and occ[1] == occ_adt and 'argument' in occ[3]:
            return ('option', opt(occ[3]['argument']) or '?')
    return None


@RS.rule('C20.R3', 'K-GUARD+K-ORDER', 'the generic parser: options until neither parser accepts, one `--`, operands; exact before prefix; (argument spec x `=`) table; attached-argument branch')
def r3(cx):
    F = cx.F
    # ---- parse_arguments (MIR): loop / `--` / operands
    body = F.body(PARSE_ARGUMENTS)
    cx.fn(body.fn)
    du = Q.DefUse(body)
    ps = Q.find_calls(body, [CS + 'parse_short_options'])
    pl = Q.find_calls(body, [CS + 'parse_long_option'])
    ni = Q.find_calls(body, ['*::Peekable::<I>::next_if', '*::Peekable::<I>::next_if_eq'])
    co = Q.find_calls(body, ['*::Iterator::collect'])
    cx.require(len(ps) == 1 and len(pl) == 1, 'parse_arguments does not call parse_short_options and parse_long_option exactly once each')
    cx.require(len(co) == 1, 'parse_arguments does not collect the operands exactly once')
    fnl = PARSE_ARGUMENTS
    loc = body.loc(body.d)
    cx.site('parse_arguments: parse_short_options at %s, parse_long_option at %s, next_if at %s, collect at %s' % (
        body.loc(ps[0][1]), body.loc(pl[0][1]), [body.loc(t) for _, t in ni], body.loc(co[0][1])))
    in_loop = lambda b: b in body.reachable(body.succ(b)[0]) if body.succ(b) else False
    if not (in_loop(ps[0][0]) and in_loop(pl[0][0])):
        cx.violation(fnl, 'no-loop', 'options must be parsed repeatedly: parse_short_options / parse_long_option are not inside a loop', loc=loc)
    if len(ni) != 1:
        cx.violation(fnl, 'separator-count', 'exactly one `--` separator must be dropped after the options, found %d next_if calls' % len(ni), loc=loc)
    else:
        nb, nt = ni[0]
        if in_loop(nb):
            cx.violation(fnl, 'separator-in-loop', 'the `--` separator is dropped inside the option loop: a second `--` (an operand) would be '
                         'dropped too, or options after `--` would be parsed', loc=body.loc(nt))
        if not (body.dominates(ps[0][0], nb) and body.dominates(pl[0][0], nb)):
            cx.violation(fnl, 'separator-before-options', 'the `--` separator is dropped on a path that has not tried both option parsers', loc=body.loc(nt))
        if not body.dominates(nb, co[0][0]):
            cx.violation(fnl, 'operands-before-separator', 'operands are collected on a path that has not dropped the `--` separator', loc=body.loc(co[0][1]))
        conds = Q.dominating_conditions(F, body, du, nb)
        short_false = long_none = False
        for org, lab, e in conds:
            pl_ = org.get('pl')
            if pl_ is None:
                continue
            src = Q.value_source(body, du, {'cp': {'l': pl_['l']}})
            if src is None:
                continue
            if Q.callee_is(src, [CS + 'parse_short_options']) and lab == ('bool', False):
                short_false = True
            if Q.callee_is(src, [CS + 'parse_long_option']) and lab == ('variant', 'None'):
                long_none = True
        if not (short_false and long_none):
            cx.violation(fnl, 'loop-exit', 'the option loop must be left only when parse_short_options returned false and parse_long_option '
                         'returned None (found short=false:%s long=None:%s)' % (short_false, long_none), loc=body.loc(nt))
        # the closure compares with the literal "--"
        h = F.hir_of(PARSE_ARGUMENTS)
        sep = [x for x in H.calls(h['body']) if x.get('k') == 'mcall' and x.get('name') in ('next_if', 'next_if_eq')]
        lits = {y.get('v') for x in sep for y in H.walk(x) if y.get('k') == 'lit' and y.get('t') == 'str'}
        eqs = [y for x in sep for y in H.walk(x) if y.get('k') == 'binary']
        if lits != {'--'} or any(y.get('op') != '==' for y in eqs):
            cx.violation(fnl, 'separator-literal', 'the separator must be the argument equal to "--" (found %s)' % sorted(lits), loc=loc)
    # after `true` from parse_short_options the loop continues without trying a long option on the same argument
    h = F.hir_of(PARSE_ARGUMENTS)
    ok = False
    for x in H.walk(h['body']):
        if x.get('k') == 'if' and any(callee(c) == CS + 'parse_short_options' for c in H.calls(x['c'])):
            ok = 'continue' in _kinds(x['t']) and not H.calls(x['t'])
    cx.cellcount(1)
    if not ok:
        cx.violation(fnl, 'short-continue', 'after a group of short options the loop must continue with the next argument', loc=loc)
    # ---- long_match: exact returns inside the scan; exactly one candidate otherwise
    fn = CS + 'long_match'
    h = F.hir_of(fn)
    cx.fn(fn)
    table, m = H.fn_match_table(F, fn, CS + 'LongMatch')
    fors = [x for x in H.walk(h['body']) if x.get('k') == 'for']
    in_for = bool(fors) and any(y is m for y in H.walk(fors[0]['body']))
    exact = table['Exact'][1]
    partial = table['Partial'][1]
    none = table['None'][1]
    cx.site('long_match: Exact => %s; Partial => %s; None => %s' % (sorted(_kinds(exact) & {'ret'}), sorted(_calls_named(partial)), sorted(_calls_named(none))))
    cx.cellcount(3)
    e = unwrap(exact)
    if not (in_for and e.get('k') == 'ret' and e.get('e') and last(callee(unwrap(e['e']))) == 'Ok' and unwrap(unwrap(e['e'])['a'][0]).get('k') == 'local'):
        cx.violation(fn, 'exact-first', 'an exact long option name must be returned from inside the scan, before prefix candidates are counted '
                     '(`--all` must select `all` even if `allow` exists)', loc=hloc(h, m))
    if _calls_named(partial) != {'push'} or 'ret' in _kinds(partial):
        cx.violation(fn, 'partial-collect', 'a prefix candidate must be recorded (and only recorded) so that ambiguity can be detected', loc=hloc(h, m))
    if H.calls(none) or _kinds(none) - {'tup', 'block'}:
        cx.violation(fn, 'none-skip', 'a spec whose long name does not start with the given name must be skipped', loc=hloc(h, m))
    tail = unwrap(h['body'].get('e')) if h['body'].get('k') == 'block' else None
    ok = False
    if isinstance(tail, dict) and tail.get('k') == 'if':
        c = unwrap(tail['c'])
        ok = (c.get('k') == 'binary' and c.get('op') == '==' and
              {H.lit_value(c['a']), H.lit_value(c['b'])} >= {1} and
              any(x.get('k') == 'mcall' and x.get('name') == 'len' for x in H.walk(c)) and
              last(callee(unwrap(tail['t']))) == 'Ok' and last(callee(unwrap(tail['f']))) == 'Err')
        if ok:
            idx = [x for x in H.walk(tail['t']) if x.get('k') == 'index']
            ok = len(idx) == 1 and H.lit_value(idx[0]['i']) == 0
    cx.cellcount(1)
    if not ok:
        cx.violation(fn, 'unique-candidate', 'without an exact match the abbreviation must succeed only when exactly one spec matches '
                     '(`matches.len() == 1` => Ok(matches[0]), else Err(matches))', loc=hloc(h))
    # ---- OptionSpec::long_match: prefix test, then length equality
    fns = [k for k in F.hir if k.startswith(OPTION_SPEC) and k.endswith('::long_match')]
    cx.require(len(fns) == 1, 'OptionSpec::long_match not found')
    fn = fns[0]
    h = F.hir_of(fn)
    cx.fn(fn)
    hits = {}
    for n, g in guarded_nodes(h['body']):
        if n.get('k') == 'path' and (n.get('def') or '').startswith(CS + 'LongMatch::'):
            conds = []
            for c, pol in g.other:
                if c.get('k') == 'mcall' and c.get('name') == 'starts_with':
                    recv_is_long = unwrap(c['recv']).get('name') == 'long'
                    conds.append(('starts_with' if recv_is_long else 'starts_with-reversed', pol))
                elif c.get('k') == 'binary' and c.get('op') == '==' and all(unwrap(s).get('k') == 'mcall' and unwrap(s).get('name') == 'len' for s in (c['a'], c['b'])):
                    conds.append(('len==', pol))
                else:
                    conds.append(('?', pol))
            hits[last(n['def'])] = sorted(conds)
    cx.site('OptionSpec::long_match: %s' % hits)
    cx.cellcount(3)
    want = {'Exact': [('len==', True), ('starts_with', True)], 'Partial': [('len==', False), ('starts_with', True)], 'None': []}
    if hits != want:
        cx.violation(fn, 'long-match-table', 'long_match must be: long.starts_with(name) ? (same length ? Exact : Partial) : None, found %s' % hits,
                     loc=hloc(h))
    # ---- parse_long_option: spec classification and the (argument spec x `=`) table
    fn = CS + 'parse_long_option'
    h = F.hir_of(fn)
    cx.fn(fn)
    body = F.body(fn)
    try:
        paths = _Paths(F, body).run()
    except _Undecidable as e:
        cx.require(False, 'parse_long_option: the decisions of the function cannot be read as a table (%s)' % e)
    cx.require(paths, 'parse_long_option: no path to a return')
    ERR, OCC = CS + 'ParseError', CS + 'OptionOccurrence'
    cells = {}
    for st in paths:
        asg = st['assign']
        strange = sorted(set(asg) - set(_LONG_ATOMS))
        cx.require(not strange, 'parse_long_option: a decision depends on %s, which is not one of the values the table is written over (%s)'
                   % (strange, sorted(_LONG_ATOMS)))
        cx.require(all(asg[k] in _LONG_ATOMS[k] for k in asg), 'parse_long_option: unexpected value in %s' % asg)
        got = _path_outcome(st, ERR, OCC)
        cx.require(got is not None,
                   'parse_long_option: the value returned on the path %s is not a recognisable Ok(None) / Ok(Some(occurrence)) / Err(ParseError)' % asg)
        free = [k for k in _LONG_ATOMS if k not in asg]
        wants = set()
        full = None
        stack = [dict(asg)]
        while stack:
            cur = stack.pop()
            rest = [k for k in free if k not in cur]
            if rest:
                for v in _LONG_ATOMS[rest[0]]:
                    n = dict(cur)
                    n[rest[0]] = v
                    stack.append(n)
                continue
            wants.add(_long_option_expected(cur))
            full = cur
        called = {c[0] for c in st['calls']}
        cellkey = None
        if asg.get('long_match') == 'Ok' and 'get_argument' in asg and 'find' in asg:
            cellkey = (asg['get_argument'], asg['find'])
        if wants & {('error', 'NonPortableLongOption'), ('error', 'UnknownLongOption'), ('error', 'AmbiguousLongOption')} or \
                got[1] in ('NonPortableLongOption', 'UnknownLongOption', 'AmbiguousLongOption') or cellkey is None:
            desc = 'classification'
        else:
            desc = 'cell:%s:%s' % cellkey
        shown = ', '.join('%s=%s' % (k, asg[k]) for k in _LONG_ATOMS if k in asg)
        cells.setdefault((desc, shown), (got, wants))
        cx.cellcount(1)
        # an option argument that is neither visibly None nor visibly Some(..): wrong where None is due, unreadable elsewhere
        cx.require(got != ('option', '?') or wants == {('option', 'None')}, 'parse_long_option: the option argument recorded on the path %s is not '
                   'recognisable as None / Some(..)' % asg)
        if wants != {got}:
            if desc == 'classification':
                msg = ('a long option must be accepted iff long names are allowed and (extensions are allowed or the spec is not an extension); '
                       'otherwise NonPortableLongOption; no/several candidates => Unknown/AmbiguousLongOption')
            else:
                msg = 'long option with argument spec %s and `=` %s' % (cellkey[0], 'present' if cellkey[1] == 'Some' else 'absent')
            cx.violation(fn, desc, '%s: when %s the function must give %s, it gives %s' % (
                msg, shown, ' or '.join(sorted('%s %s' % (w[0], w[1] or '') for w in wants)), '%s %s' % (got[0], got[1] or '')),
                loc=body.loc(body.d))
            continue
        # the next argument is consumed exactly where it is the option argument
        want_next = got in (('option', 'Some'), ('error', 'MissingOptionArgument')) and cellkey == ('Required', 'None')
        if got[0] in ('option', 'error') and cellkey is not None and ('next' in called) != want_next:
            cx.violation(fn, 'cell:%s:%s' % cellkey, 'long option with argument spec %s and `=` %s: the next argument must be consumed exactly when it '
                         'is the option argument (consumed here: %s)' % (cellkey[0], 'present' if cellkey[1] == 'Some' else 'absent', 'next' in called),
                         loc=body.loc(body.d))
        if cellkey == ('Required', 'Some') and got == ('option', 'Some'):
            # drain(..index + 1): the name and the `=` are removed, nothing more
            dr = [c for c in st['calls'] if c[0] == 'drain']
            cx.require(len(dr) == 1 and len(dr[0][1]) == 2, 'parse_long_option: `--name=value`: how the name is removed from the field is not recognisable '
                       '(expected one String::drain)')
            rng = dr[0][1][1]
            ok = None
            if rng[0] == 'adt' and len(rng[3]) == 1:
                end = list(rng[3].values())[0]
                while end[0] == 'proj' and end[2] == 'f:0' and end[1][0] == 'binop':
                    end = end[1]
                is_index = lambda v: v[0] == 'proj' and v[2] == 'f:0' and v[1][0] == 'proj' and v[1][2] == 'v:Some' and v[1][1] == ('atom', 'find')
                if last(rng[1]) == 'RangeTo':
                    if end[0] == 'binop' and end[1] in ('Add', 'AddWithOverflow', 'AddUnchecked'):
                        ok = is_index(end[2]) and end[3][0] == 'const' and re.match(r'1(_usize)?$', end[3][1]) is not None
                    elif is_index(end):
                        ok = False
                elif last(rng[1]) == 'RangeToInclusive':
                    ok = True if is_index(end) else None
            cx.require(ok is not None, 'parse_long_option: `--name=value`: the range removed from the field is not recognisable: %s' % (rng,))
            if not ok:
                cx.violation(fn, 'cell:Required:Some:drain', 'the argument of `--name=value` is what follows the `=`: drain(..index + 1)', loc=body.loc(dr[0][2]))
    for (desc, shown), (got, wants) in sorted(cells.items(), key=repr):
        cx.site('parse_long_option: %s => %s %s' % (shown, got[0], got[1] or ''))
    # ---- parse_short_options
    fn = CS + 'parse_short_options'
    h = F.hir_of(fn)
    cx.fn(fn)
    table, m = H.fn_match_table(F, fn, CS + 'OptionArgumentSpec')
    none_arm, req_arm = table['None'][1], table['Required'][1]
    cx.site('parse_short_options: None => %s; Required => %s' % (sorted(_calls_named(none_arm)), sorted(_calls_named(req_arm))))
    cx.cellcount(2)
    if 'push' not in _calls_named(none_arm) or 'break' in _kinds(none_arm) or 'next' in _calls_named(none_arm):
        cx.violation(fn, 'short:None', 'an option without argument must be recorded and the scan of the group must go on (`-ab` = `-a -b`)', loc=hloc(h, m))
    arg_none = [f for x in H.walk(none_arm) if x.get('k') == 'struct' for f in x['fields'] if f[0] == 'argument']
    if not (len(arg_none) == 1 and unwrap(arg_none[0][1]).get('k') == 'path' and last(unwrap(arg_none[0][1]).get('def')) == 'None'):
        cx.violation(fn, 'short:None:argument', 'an option without argument must be recorded with argument: None', loc=hloc(h, m))
    if 'break' not in _kinds(req_arm) or 'push' not in _calls_named(req_arm):
        cx.violation(fn, 'short:Required:break', 'an option that takes an argument ends the group: the rest of the field is its argument', loc=hloc(h, m))
    # decided on the MIR: what each site is conditioned on (`== 0` / `> 0` / `!= 0` / is_empty, either branch order; `ok_or(..)?`,
    # match, let-else or is_none + return for the missing argument)
    sb = F.body(fn)
    sdu = Q.DefUse(sb)
    NEXT = [re.compile(r'Peekable<.*Iterator>::next$')]
    zero = lambda o: 'c' in o and re.match(r'0(_usize)?$', str(o['c'])) is not None

    def site_conds(blk):
        """(remainder is empty: {True/False}, mode.option_arguments_in_same_field: {True/False}, next() returned None: bool)"""
        empty, same, none = set(), set(), False
        for org, lab, e in Q.implied_conditions(F, sb, sdu, blk):
            org, lab = Q.peel_not(sdu, org, lab)
            if org['k'] == 'discr' and lab == ('variant', 'None') and not (org['pl'].get('p')):
                src = Q.value_source(sb, sdu, {'cp': {'l': org['pl']['l']}})
                none = none or (src is not None and Q.callee_is(src, NEXT))
            if lab[0] != 'bool':
                continue
            if org['k'] == 'binop':
                rv = org['rv']
                za, zb = zero(rv['a']), zero(rv['b'])
                if za == zb:
                    continue
                src = Q.value_source(sb, sdu, rv['b'] if za else rv['a'])
                if src is None or not Q.callee_is(src, ['*::len']):
                    continue
                op = rv['op']
                if op == 'Eq' or (op == 'Le' and zb) or (op == 'Ge' and za):
                    empty.add(lab[1])
                elif op == 'Ne' or (op == 'Gt' and zb) or (op == 'Lt' and za):
                    empty.add(not lab[1])
            elif org['k'] == 'call' and Q.callee_is(org['t'], ['*::is_empty']):
                empty.add(lab[1])
            elif org['k'] == 'call' and Q.callee_is(org['t'], ['*::is_none', '*::is_some']) and org['t']['a']:
                src = Q.value_source(sb, sdu, org['t']['a'][0])
                if src is not None and Q.callee_is(src, NEXT) and lab[1] == Q.callee_is(org['t'], ['*::is_none']):
                    none = True
            elif org['k'] == 'place' and any(isinstance(x, dict) and x.get('f') == 'option_arguments_in_same_field' for x in org['pl'].get('p') or []):
                same.add(lab[1])
        return empty, same, none

    nexts = Q.find_calls(sb, NEXT)
    drains = Q.find_calls(sb, ['*::String::drain'])
    missing = Q.find_aggregates(sb, CS + 'ParseError', 'MissingOptionArgument')
    unsep = Q.find_aggregates(sb, CS + 'ParseError', 'UnseparatedOptionArgument')
    if not missing or not unsep:
        inner = [x for lb in F.logical(fn) if lb is not sb for v in ('MissingOptionArgument', 'UnseparatedOptionArgument')
                 for x in Q.find_aggregates(lb, CS + 'ParseError', v)]
        cx.require(not inner, 'parse_short_options: an option-argument error is built inside a closure: the condition it is returned under is not read')
    t_ok = bool(nexts) and all(site_conds(b)[0] == {True} for b, t in nexts) and bool(missing)
    for b, j, st in missing:
        empty, same, none = site_conds(b)
        if not none:
            # `arguments.next().ok_or(Missing)?`: None of next() becomes the error, which `?` returns
            l = st['lhs']['l']
            users = [(ub, ut) for ub, ut in Q.find_calls(sb, ['*::Option::<T>::ok_or']) if len(ut['a']) == 2 and Q.operand_local(ut['a'][1]) == l]
            none = len(users) == 1 and (lambda src: src is not None and Q.callee_is(src, NEXT))(Q.value_source(sb, sdu, users[0][1]['a'][0])) and \
                any(Q.operand_local(bt['a'][0]) == users[0][1]['dest']['l'] for bb_, bt in Q.find_calls(sb, Q.TRY_BRANCH) if bt['a'])
        t_ok = t_ok and empty == {True} and none
    f_ok = bool(drains) and all(site_conds(b)[0] == {False} for b, t in drains) and bool(unsep)
    guard_ok = bool(unsep)
    for b, j, st in unsep:
        empty, same, none = site_conds(b)
        f_ok = f_ok and empty == {False}
        guard_ok = guard_ok and same == {False}
    ok = t_ok and f_ok and guard_ok
    cx.site('parse_short_options: next argument taken when the rest of the field is empty: %s (missing => MissingOptionArgument); rest drained when '
            'not empty: %s; UnseparatedOptionArgument only when the mode forbids attached arguments: %s' % (t_ok, f_ok, guard_ok))
    cx.cellcount(2)
    if not ok:
        cx.violation(fn, 'short:Required:argument', 'the argument of a short option is the non-empty rest of the field (rejected only when '
                     'the mode forbids attached arguments) or else the next argument (MissingOptionArgument if there is none)', loc=hloc(h, m))
    some_arg = [f for x in H.walk(req_arm) if x.get('k') == 'struct' for f in x['fields'] if f[0] == 'argument']
    if not (len(some_arg) == 1 and last(callee(unwrap(some_arg[0][1]))) == 'Some'):
        cx.violation(fn, 'short:Required:recorded', 'the option must be recorded with argument: Some(argument)', loc=hloc(h, m))
    # unknown / non-portable classification of a short option
    unk = [(n, g) for n, g in guarded_nodes(h['body']) if n.get('k') == 'call' and n.get('ctor') and last(callee(n)) in ('UnknownShortOption', 'NonPortableShortOption')]
    got = {}
    for n, g in unk:
        if last(callee(n)) == 'UnknownShortOption':
            got['Unknown'] = any('None' in keys for sc, keys, sub in g.arms)
        else:
            conds = sorted((c.get('name'), pol) for c, pol in g.other if c.get('k') in ('mcall', 'field'))
            got['NonPortable'] = conds == [('extension_options', False), ('is_extension', True)]
    cx.site('parse_short_options: unknown letter => UnknownShortOption under find() == None: %s; extension && !mode.extension_options => '
            'NonPortableShortOption: %s' % (got.get('Unknown'), got.get('NonPortable')))
    cx.cellcount(2)
    if got != {'Unknown': True, 'NonPortable': True}:
        cx.violation(fn, 'short:classification', 'a letter not in the table must be UnknownShortOption; an extension letter must be rejected '
                     'exactly when the mode disables extensions (found %s)' % got, loc=hloc(h))
    finds = [x for x in H.calls(h['body']) if x.get('name') == 'find']
    ok = len(finds) == 1 and any(y.get('k') == 'binary' and y.get('op') == '==' and _has_get_short(y) for y in H.walk(finds[0]))
    cx.cellcount(1)
    if not ok:
        cx.violation(fn, 'short:lookup', 'the spec of a short option is the first spec whose get_short() equals the letter', loc=hloc(h))


# ------------------------------------------------------------------ R4 callers
BESPOKE = {
    ':': 'POSIX: no options; all arguments ignored',
    'true': 'POSIX: no options; all arguments ignored',
    'false': 'POSIX: no options; all arguments ignored',
    'set': 'bespoke parser (set::syntax): +o/-o names, + prefixes',
    'kill': 'bespoke parser (kill::syntax): signal names as options',
    'typeset': 'bespoke parser (typeset::syntax::parse): + prefixes; takes the same Mode',
    'export': 'typeset::syntax::parse',
    'readonly': 'typeset::syntax::parse',
}
TYPESET_PARSE = 'yash_builtin::typeset::syntax::parse'
WITH_ENV = CS + 'Mode::with_env'


def _callees(F, fn):
    h = F.hir.get(fn)
    out = set()
    if not h:
        return out
    for x in H.walk(h['body']):
        if x.get('k') in ('call', 'mcall'):
            d = callee(x)
            if d:
                out.add(d)
        elif x.get('k') == 'path' and x.get('dk') in ('Fn', 'AssocFn') and x.get('def'):
            out.add(x['def'])
    return out


def _reach(F, fn):
    seen, st = set(), [fn]
    while st:
        f = st.pop()
        if f in seen:
            continue
        seen.add(f)
        for c in _callees(F, f):
            if c.startswith('yash_builtin::') and c not in seen:
                st.append(c)
    return seen


def _is_with_env(node, h):
    n = unwrap(node)
    if n.get('k') == 'call' and callee(n) == WITH_ENV:
        return True
    if n.get('k') == 'local':
        inits = [l['init'] for l in H.walk(h['body']) if l.get('k') == 'let' and l['pat'].get('k') == 'bind'
                 and l['pat'].get('name') == n['name'] and l.get('init')]
        muts = [l for l in H.walk(h['body']) if l.get('k') == 'let' and l['pat'].get('k') == 'bind'
                and l['pat'].get('name') == n['name'] and 'Mut' in (l['pat'].get('mode') or '').split(',')[-1]]
        return len(inits) == 1 and not muts and unwrap(inits[0]).get('k') == 'call' and callee(unwrap(inits[0])) == WITH_ENV
    return False


@RS.rule('C20.R4', 'K-CALLERS', 'every registered built-in reaches parse_arguments with Mode::with_env(env), or is a reviewed bespoke parser')
def r4(cx):
    F = cx.F
    calls = parse_calls(F)
    cx.floor(len(calls), 24, 'parse_arguments call sites')
    for fn, h, c in calls:
        cx.fn(fn)
        ok = _is_with_env(c['a'][1], h)
        cx.site('%s: parse_arguments(.., %s, ..)' % (fn, 'Mode::with_env(env)' if ok else 'OTHER MODE'))
        if not ok:
            cx.violation(fn, 'mode', 'parse_arguments is not given Mode::with_env(env): the `portable` option would not apply to this built-in '
                         'the way it applies to the others', loc=hloc(h, c))
    for fn, h in F.hir.items():
        if fn.startswith('yash_builtin::') and not is_test(fn) and not fn.startswith('yash_builtin::typeset::syntax::'):
            for c in H.calls(h['body']):
                if callee(c) == TYPESET_PARSE:
                    ok = _is_with_env(c['a'][1], h)
                    cx.site('%s: typeset::syntax::parse(.., %s, ..)' % (fn, 'Mode::with_env(env)' if ok else 'OTHER MODE'))
                    if not ok:
                        cx.violation(fn, 'mode', 'typeset::syntax::parse is not given Mode::with_env(env)', loc=hloc(h, c))
    reg = F.hir_of('yash_builtin::iter')
    tups = [x for x in H.walk(reg['body']) if x.get('k') == 'tup' and len(x['a']) == 2 and isinstance(H.lit_value(x['a'][0]), str)]
    cx.floor(len(tups), 30, 'registered built-ins')
    seen = set()
    for t in tups:
        name = H.lit_value(t['a'][0])
        seen.add(name)
        mains = [callee(c) for c in H.calls(t['a'][1]) if callee(c).startswith('yash_builtin::') and callee(c).endswith('::main')]
        cx.require(len(mains) == 1, 'registry entry %s does not call exactly one main' % name)
        r = _reach(F, mains[0])
        generic = PARSE_ARGUMENTS in r
        cx.site('%s: %s' % (name, 'reaches parse_arguments' if generic else 'bespoke: ' + BESPOKE.get(name, 'NOT REVIEWED')))
        cx.cellcount(1)
        if generic and name in BESPOKE:
            cx.violation(mains[0], 'stale-bespoke:%s' % name, 'the %s built-in now uses the generic parser: remove it from the bespoke list' % name,
                         loc=hloc(F.hir_of(mains[0])))
        if not generic and name not in BESPOKE:
            cx.violation(mains[0], 'no-generic-parser:%s' % name, 'the %s built-in does not parse its arguments with common::syntax::parse_arguments '
                         'and is not a reviewed bespoke parser: grouped options, `--` and long option abbreviations are not guaranteed for it'
                         % name, loc=hloc(F.hir_of(mains[0])))
        if name in ('typeset', 'export', 'readonly') and TYPESET_PARSE not in r:
            cx.violation(mains[0], 'no-typeset-parser:%s' % name, 'the %s built-in no longer goes through typeset::syntax::parse' % name,
                         loc=hloc(F.hir_of(mains[0])))
    for name in sorted(set(BESPOKE) - seen):
        cx.violation('yash_builtin::iter', 'bespoke-gone:%s' % name, 'bespoke entry %s is not a registered built-in any more' % name, loc=hloc(reg))


# ---------------------------------------------------------------------------------------
# added after an independent seeded change (kill's bespoke parser)
@RS.rule('C20.R5', 'K-SIBLING', 'kill: every spelling of the signal operand (-s NAME, -sNAME, -n N, -NAME) is parsed with the same SIG-prefix allowance')
def r5(cx):
    import mirq as Q
    F = cx.F
    PS = 'yash_builtin::kill::syntax::parse_signal'
    users = {}
    for b, blk, t in F.callers_of(lambda names, t: PS in names):
        users.setdefault(b.root, []).append((b, blk, t))
    # the option parser is the function that both parses signals and records the chosen one
    parsers = [r for r in users if any(Q.find_calls(lb, [Q.re.compile(r'kill::syntax::.*set_signal$'), Q.re.compile(r'::set_signal$')])
                                       for lb in F.logical(r))]
    cx.require(len(parsers) == 1, 'the kill option parser (parse_signal + set_signal) was not found: %s' % sorted(users))
    root = parsers[0]
    cx.fn(root)
    sites = users[root]
    cx.floor(len(sites), 4, 'parse_signal call sites in the kill option parser')
    for b, blk, t in sites:
        du = Q.DefUse(b)
        flag = Q.operand_name(b, du, t['a'][2]) if len(t['a']) > 2 else None
        cx.site('%s: parse_signal(.., %s) at %s' % (b.fn, flag, b.loc(t)))
        if flag is None or flag.startswith('const'):
            cx.violation(root, 'sig-prefix-constant', 'one spelling of the signal operand is parsed with a fixed SIG-prefix setting (%s) instead '
                         'of the mode-dependent one used for the others: `kill -sSIGINT` and `kill -s SIGINT` are then not equivalent'
                         % flag, loc=b.loc(t))
    names = {Q.operand_name(b, Q.DefUse(b), t['a'][2]) for b, blk, t in sites if len(t['a']) > 2}
    names = {n for n in names if n and not n.startswith('const')}
    if len(names) > 1:
        cx.violation(root, 'sig-prefix-differs', 'the spellings of the signal operand use different SIG-prefix settings: %s' % sorted(names),
                     loc=sites[0][0].loc(sites[0][2]))


@RS.rule('C20.R3b', 'K-TAINT', 'long option `--name=value`: what is cut off the field is measured in the text the user typed (position of `=`), '
         'never by the length of the full option name of the table (the name may be abbreviated)')
def r3b(cx):
    import mirq as Q
    import pp
    F = cx.F
    fn = CS + 'parse_long_option'
    n = 0
    for body in F.logical(fn):
        du = Q.DefUse(body)
        seeds = set()
        for blk, t in body.calls():
            nm = pp.callee(t)
            if nm.endswith('OptionSpec::<\'a>::get_long') or nm.endswith('OptionSpec::get_long') or re.search(r'OptionSpec(::<.*>)?::get_long$', nm):
                seeds.add(t['dest']['l'])
        cx.fn(body.fn)
        taint = Q.forward_taint(body, seeds) if seeds else set()
        cutters = [(blk, t) for blk, t in body.calls() if re.search(r'String::(drain|split_off|replace_range|truncate)$|'
                                                                       r'str>::(split_at|get)$|SliceIndex<str>>::index$|Index<.*>>::index$',
                                                                       pp.callee(t))]
        for blk, t in cutters:
            n += 1
            bad = any((Q.operand_place(a) or {}).get('l') in taint for a in t['a'][1:])
            cx.site('%s: %s at %s; range derived from the table name length: %s' % (body.fn, pp.callee(t).split('::')[-1], body.loc(t), bad))
            if bad:
                cx.violation(fn, 'cut-by-table-name-length', 'the field `--name=value` is cut at an offset computed from the length of the '
                             "option's full name in the table: with an abbreviated name (`--delim=:` for --delimiter) the offset is beyond "
                             'the `=` the user typed - part of the argument is lost or the slice panics', loc=body.loc(t))
    cx.require(n >= 1, 'parse_long_option no longer cuts the field (anchor moved: review how the attached argument is extracted)')


@RS.rule('C20.R1b', 'K-TABLE', 'ulimit: the long name of each resource option is the name of the resource its short letter selects '
         '(`-r` and `--rtprio` are the same option because both tables say so)')
def r1b(cx):
    F = cx.F
    tb = tables(cx)
    key = 'yash_builtin::ulimit::syntax::OPTION_SPECS'
    cx.require(key in tb, 'ulimit option table not found')
    h, specs = tb[key]
    fn = [k for k in F.hir if k.endswith('ResourceExt for yash_env::system::resource::Resource>::option') or
          (k.startswith('<yash_env::system::resource::Resource as yash_builtin::ulimit::resource::ResourceExt>') and k.endswith('::option'))]
    cx.require(len(fn) == 1, 'ResourceExt::option for Resource not found (%s)' % fn)
    cx.fn(fn[0])
    table, m = H.fn_match_table(F, fn[0], 'yash_env::system::resource::Resource')
    by_short = {s['short']: s for s in specs}
    n = 0
    for variant, (i, arm) in sorted(table.items()):
        letter = H.lit_value(unwrap(arm))
        if not isinstance(letter, str) or letter == '\0':
            continue
        n += 1
        spec = by_short.get(letter)
        cx.cellcount(1)
        cx.site('ulimit: Resource::%s <-> -%s <-> --%s' % (variant, letter, spec['long'] if spec else None))
        if spec is None:
            cx.violation(key, 'resource-without-option:%s' % variant, 'Resource::%s is selected by -%s, which is not in the option table' % (variant, letter),
                         loc=hloc(h, h['body']))
        elif spec['long'] != variant.lower():
            cx.violation(key, 'long-name:%s' % variant, 'the option -%s selects Resource::%s but its long name is --%s: `ulimit --%s` and '
                         '`ulimit -%s` then act on different resources (the long spelling is not equivalent to the short one)'
                         % (letter, variant, spec['long'], variant.lower(), letter), loc=hloc(h, h['body']))
    cx.floor(n, 19, 'resource options of ulimit')


# ---------------------------------------------------------------------------------------
# added after the audit of the unmodified tree (fix e9d7145: umask --symbolic, unalias --all)
DOC_PAIR = re.compile(r'\*\*`-([A-Za-z0-9])`\*\*\s*\(\*\*`--([A-Za-z0-9][A-Za-z0-9-]*)`\*\*\)')


@RS.rule('C20.R6', 'K-TABLE', 'the user manual documents `-x` (`--long`) as two spellings of one option: the option table of that built-in '
         'must have one spec carrying both names (a documented long spelling that the table lacks is rejected as an unknown option)')
def r6(cx):
    import os
    F = cx.F
    docs = os.path.join(getattr(F, 'repo', '/repo'), 'docs', 'src', 'builtins')
    cx.require(os.path.isdir(docs), 'the manual pages of the built-ins (docs/src/builtins) were not found')
    tb = tables(cx)
    by_mod = {}
    for k, (h, specs) in tb.items():
        by_mod.setdefault(module_of(k if isinstance(k, str) else k[1]), []).append((k, h, specs))
    pairs = 0
    pages = 0
    for page in sorted(os.listdir(docs)):
        if not page.endswith('.md'):
            continue
        stem = page[:-3]
        text = open(os.path.join(docs, page), encoding='utf-8').read()
        text = re.sub(r'<!--.*?-->', '', text, flags=re.S)          # options announced as not implemented sit in comments
        documented = sorted(set(DOC_PAIR.findall(text)))
        if not documented:
            continue
        pages += 1
        mod_tables = by_mod.get(stem, [])
        if stem in ('export', 'readonly'):
            mod_tables = mod_tables + by_mod.get('typeset', [])       # both delegate to the typeset parser for the rest
        if not mod_tables:
            cx.violation('docs/src/builtins/%s' % page, 'no-option-table', 'the manual documents options for `%s` but no option table of '
                         'yash_builtin::%s reaches the generic parser' % (stem, stem))
            continue
        specs = [s for k, h, ss in mod_tables for s in ss]
        h0 = mod_tables[0][1]
        key0 = mod_tables[0][0] if isinstance(mod_tables[0][0], str) else mod_tables[0][0][1]
        for short, long_ in documented:
            pairs += 1
            cx.cellcount(1)
            both = [s for s in specs if s['short'] == short and s['long'] == long_]
            cx.site('%s: -%s / --%s documented; table has the pair: %s' % (stem, short, long_, bool(both)))
            if both:
                continue
            s_short = [s for s in specs if s['short'] == short]
            s_long = [s for s in specs if s['long'] == long_]
            if s_short and not s_long:
                what = 'the table knows -%s but not --%s (long name %r): the documented long spelling is rejected as an unknown option' \
                       % (short, long_, s_short[0]['long'])
            elif s_long and not s_short:
                what = 'the table knows --%s but under the short name %r, not -%s' % (long_, s_long[0]['short'], short)
            elif s_short and s_long:
                what = '-%s and --%s are two different specs of the table: the two documented spellings select different options' % (short, long_)
            else:
                what = 'neither -%s nor --%s is in the option table' % (short, long_)
            cx.violation(key0, 'documented-pair:%s:-%s/--%s' % (stem, short, long_), 'docs/src/builtins/%s documents -%s (--%s) as one option, '
                         'but %s' % (page, short, long_, what), loc=hloc(h0, h0['body']))
    cx.floor(pages, 14, 'manual pages documenting -x (--long) pairs')
    cx.floor(pairs, 47, 'documented -x (--long) pairs')


# ---------------------------------------------------------------------------------------
# kill's bespoke parser, added after the audit of the unmodified tree (fixes a835bd0, b738927)
KILL_PARSE = 'yash_builtin::kill::syntax::parse'
KILL_PARSE_SIGNAL = 'yash_builtin::kill::syntax::parse_signal'
PREFIX_ONLY = [re.compile(r'core::str::<impl str>::(starts_with|strip_prefix|is_empty|len|is_char_boundary)(::<.*>)?$'),
               re.compile(r'PartialEq(<.*>)?>::(eq|ne)$'), re.compile(r'::eq$'), re.compile(r'::ne$')]


def _kill_parse(cx):
    F = cx.F
    body = F.main_body(KILL_PARSE)
    cx.fn(body.fn)
    du = Q.DefUse(body)
    named = {body.local_name(l): l for l in range(len(body.locals)) if body.local_name(l)}
    return F, body, du, named


@RS.rule('C20.R7', 'K-GUARD', 'kill has no long options: an argument that starts with `--` (other than the separator itself) is never read '
         'as the obsolete `-SIGNAL` spelling (`--9` is not `-n -9`)')
def r7(cx):
    F, body, du, named = _kill_parse(cx)
    sites = [(blk, t) for blk, t in body.calls() if Q.callee_is(t, [KILL_PARSE_SIGNAL])]
    cx.floor(len(sites), 3, 'parse_signal calls in the kill option parser')
    n = 0
    for blk, t in sites:
        text = Q.operand_name(body, du, t['a'][1]) if len(t['a']) > 1 else None
        if text not in ('options', 'remainder'):
            continue                      # a separate argument (`-s NAME`), not text cut out of the option argument
        n += 1
        ok = False
        for org, lab, edge in Q.implied_conditions(F, body, du, blk):
            if org['k'] != 'call' or not Q.callee_is(org['t'], [re.compile(r'core::str::<impl str>::(starts_with|strip_prefix)(::<.*>)?$')]):
                continue
            a = org['t']['a']
            recv = Q.operand_name(body, du, a[0]) or ''
            pat = str(a[1].get('c')) if len(a) > 1 and 'c' in a[1] else ''
            if '-' not in pat or not (recv.startswith('options') or recv.startswith('arg.value')):
                continue
            if lab in (('bool', False), ('variant', 'None')):
                ok = True
        cx.site('kill::syntax::parse: parse_signal(%s) at %s: behind the no-second-hyphen test: %s' % (text, body.loc(t), ok))
        if not ok:
            cx.violation(KILL_PARSE, 'double-hyphen-as-signal:%s' % text, 'text cut out of an option argument (%s) is parsed as a signal without a '
                         'test that it does not start with a second hyphen: `kill --9 pid` is then the obsolete `-SIGNAL` spelling of '
                         'signal "-9" instead of an unknown option (kill has no long options)' % text, loc=body.loc(t))
    cx.require(n >= 2, 'no parse_signal call on text cut out of the option argument (`options` / `remainder`) found: anchor moved')


@RS.rule('C20.R8', 'K-GUARD', 'kill: an argument is read either as a cluster of options or as one signal in the obsolete `-SIGNAL` spelling, '
         'never as both: `-l` / `-v` is recorded only after a look-ahead over the rest of the argument (`-vtalrm`, `-lost` are signals)')
def r8(cx):
    F, body, du, named = _kill_parse(cx)
    cx.require('options' in named and 'list' in named and 'verbose' in named,
               'locals options/list/verbose of kill::syntax::parse not found (renamed?)')
    # values derived from the option argument as a whole, not counting prefix/length-only inspections
    whole = Q.forward_taint(body, {named['options']}, stop_calls=PREFIX_ONLY)
    # control dependence: `flag = !matches!(c, 's' | 'n')` assigns constants under a test of c - the flag depends on c all the same
    for _ in range(3):
        grew = False
        for b_, j_, st_ in body.stmts():
            if st_['k'] != 'assign' or st_['lhs'].get('p') or st_['lhs']['l'] in whole:
                continue
            if not (st_['rv']['k'] == 'use' and 'c' in st_['rv']['o']):
                continue
            for org, lab, e in Q.dominating_conditions(F, body, du, b_):
                ls = set()
                if org['k'] in ('place', 'discr'):
                    ls = {org['pl']['l']}
                elif org['k'] in ('unop', 'binop', 'cast'):
                    ls = {p_['l'] for p_ in Q.rvalue_places(org['rv'])}
                elif org['k'] == 'call':
                    ls = {org['t']['dest']['l']}
                # only tests made inside a scan of the argument count (not the tests that select this argument at all)
                if ls & whole and any(Q.callee_is(body.term(d_), [re.compile(r'Chars<.*> as core::iter::traits::iterator::Iterator>::next$')])
                                      for d_ in body.dominators().get(b_, ()) if body.term(d_)['k'] == 'call'):
                    whole.add(st_['lhs']['l'])
                    grew = True
                    break
        if not grew:
            break
        whole = Q.forward_taint(body, whole, stop_calls=PREFIX_ONLY)
    # values derived from the character the scan is currently at
    nexts = [(blk, t) for blk, t in body.calls() if Q.callee_is(t, [re.compile(r'Chars<.*> as core::iter::traits::iterator::Iterator>::next$')])]
    cx.require(nexts, 'the character scan of the option argument (Chars::next) was not found')
    # the argument loop (one iteration per command-line argument): its header separates the scans of different arguments
    outer = {blk for blk, t in body.calls() if Q.callee_is(t, [re.compile(r'Peekable::<I>::next_if$'), re.compile(r'Peekable<.*> as core::iter::traits::iterator::Iterator>::next$'),
                                                                 re.compile(r'IntoIter<.*> as core::iter::traits::iterator::Iterator>::next$')])}
    cx.require(outer, 'the loop over the command-line arguments (Peekable::next_if) was not found')
    n = 0
    for blk, j, st in body.stmts():
        if st['k'] != 'assign' or st['lhs'].get('p') or st['lhs']['l'] not in (named['list'], named['verbose']):
            continue
        # "the current character": the scan whose loop this assignment sits in (another scan of the same argument, made before
        # the loop, is the look-ahead the rule asks for)
        inner = body.reachable(blk, removed=outer)
        cur_iters = set()
        cur_dests = set()
        for nb, t in nexts:
            if nb not in inner:
                continue
            cur_dests.add(t['dest']['l'])
            o = du.origin(t['a'][0])
            if o['k'] == 'ref':
                cur_iters.add(o['pl']['l'])
        current = Q.forward_taint(body, cur_iters | cur_dests) if (cur_iters or cur_dests) else set()
        o = du.origin(st['rv']['o']) if st['rv']['k'] == 'use' else {'k': 'agg', 'rv': st['rv']}
        if o['k'] == 'agg' and o['rv'].get('variant') in (0, 'None'):
            continue                      # initialisation to None
        which = body.local_name(st['lhs']['l'])
        n += 1
        look = []
        for org, lab, edge in Q.implied_conditions(F, body, du, blk):
            locs = set()
            if org['k'] == 'place':
                locs = {org['pl']['l']}
            elif org['k'] in ('unop', 'binop', 'cast'):
                locs = {p['l'] for p in Q.rvalue_places(org['rv'])}
            elif org['k'] == 'call':
                locs = {org['t']['dest']['l']}
            elif org['k'] == 'discr':
                locs = {org['pl']['l']}
            if any(l in whole and l not in current for l in locs):
                look.append(lab)
        cx.site('kill::syntax::parse: `%s` recorded at %s behind %d condition(s) computed from the whole argument' % (which, body.loc(st), len(look)))
        if not look:
            cx.violation(KILL_PARSE, 'flag-recorded-without-look-ahead:%s' % which, 'the -%s option is recorded as soon as its letter is met, '
                         'whatever follows in the argument: `kill -vtalrm pid` / `kill -lost pid` (signal names beginning with an option '
                         'letter, obsolete -SIGNAL spelling) are then both an option and a signal and are rejected, while `-s VTALRM` works'
                         % which[0], loc=body.loc(st))
    cx.require(n >= 2, 'the assignments recording -l and -v were not found')


# ---------------------------------------------------------------------------------------
# added after seed wave 3 (C20-s6: getopts, an unknown letter ended its group)
@RS.rule('C20.R9', 'K-SIBLING', 'getopts: grouped option letters are equivalent to separate ones (`-xa` = `-x -a`) also when a letter is not in '
         'the option string: every letter that takes no argument - valid or unknown - leaves the scan inside the same group (the step to '
         'the next argument is computed from the rest of the group, never a constant)')
def r9(cx):
    F = cx.F
    fn = 'yash_builtin::getopts::model::next'
    ADT = 'yash_builtin::getopts::model::OptionType'
    cx.fn(fn)
    table, m = H.fn_match_table(F, fn, ADT)
    cx.require(table, 'the match over OptionType in getopts::model::next was not found')
    variants = [v.split('::')[-1] for v in H.enum_variants(F, ADT)]
    steps = {}
    for v in variants:
        if v not in table:
            cx.violation(fn, 'option-type-without-arm:%s' % v, 'OptionType::%s has no arm of its own in getopts::next' % v)
            continue
        i, arm = table[v]
        arm = H.peel(arm)
        elems = arm.get('a') if arm.get('k') == 'tup' else None
        if elems is None:
            steps[v] = ('computed-in-block', None)     # the TakesArgument arm: a block that decides by the remainder
            continue
        cx.require(len(elems) == 3, 'the (argument, step, error) triple of getopts::next changed shape')
        step = H.peel(elems[1])
        if step.get('k') == 'lit':
            steps[v] = ('constant', H.lit_value(step))
        elif step.get('k') in ('call', 'mcall'):
            uses_rest = any(x.get('k') == 'local' and x.get('name') == 'chars' for x in H.walk(step))
            steps[v] = ('from-rest-of-group' if uses_rest else 'call', step.get('def'))
        else:
            steps[v] = (step.get('k'), None)
        takes_arg = H.peel(elems[0]).get('def', '').endswith('Option::None') is False
        cx.site('getopts::next: OptionType::%s -> step %s%s' % (v, steps[v][0], ' (takes an argument)' if takes_arg else ''))
        cx.cellcount(1)
        if not takes_arg and steps[v][0] != 'from-rest-of-group':
            cx.violation(fn, 'letter-ends-group:%s' % v, 'after a letter of kind %s, which takes no argument, getopts moves on by %s instead of '
                         'looking at the rest of the group: with optstring `a`, `-xa` reports only `?` and silently drops `a`, while `-x -a` '
                         'reports `?` then `a` - grouped and separate spellings are no longer equivalent' % (v, steps[v][0]),
                         loc='%s:%s' % (F.hir[fn]['file'], step.get('line') or F.hir[fn]['line']))
    noarg = {v: s for v, s in steps.items() if s[0] != 'computed-in-block'}
    if len({s for s in noarg.values()}) > 1:
        cx.violation(fn, 'no-argument-letters-differ', 'the letters that take no argument advance differently: %s' % sorted(noarg.items()))
    cx.floor(len(steps), 3, 'option kinds of getopts')


# ---------------------------------------------------------------------------------------
# added after the independent report C20w3 #1 (fix 8619c4a: kill accepted +9 / -9 as signal numbers)
@RS.rule('C20.R10', 'K-GUARD', 'kill: a signal number is an unsigned decimal - the text is handed to str::parse (which accepts a leading `+` or '
         '`-`) only behind a test that it starts with a digit, so `-s +9`, `-n+9`, `-+9` are not spellings of signal 9 and `-s -9` is no signal')
def r10(cx):
    import pp
    F = cx.F
    body = F.main_body(KILL_PARSE_SIGNAL)
    cx.fn(body.fn)
    du = Q.DefUse(body)
    parses = [(blk, t) for blk, t in Q.find_calls(body, ['core::str::<impl str>::parse'])]
    cx.site('kill::syntax::parse_signal: str::parse x%d' % len(parses))
    if not parses:
        return                                   # a hand-written digit scanner accepts no sign
    memo = {}
    for blk, t in parses:
        # decided by the classifier of the family rule C20.R11 (digit test before - also in a helper -, or sign rejected afterwards)
        why = _classify_parse(F, body, blk, t, True, memo)
        ok = why is not None
        cx.site('parse_signal: str::parse at %s behind a first-character / all-digits test: %s' % (body.loc(t), why or False))
        if not ok:
            cx.violation(KILL_PARSE_SIGNAL, 'signed-signal-number', 'the signal specification is handed to str::parse::<i32> without a test that '
                         'it is made of digits: `kill -s +9 pid`, `kill -n+9 pid` and even `kill -+9 pid` send signal 9, and `kill -s -9` '
                         'passes a negative signal number on - none of them is a documented spelling of `-9` / `-s 9` / `-n 9`', loc=body.loc(t))


# ---------------------------------------------------------------------------------------
# added after fix 8980b3b (`trap '' +2`, `trap cmd +0`, `kill -l +2`): the third instance of one defect (C12.R6 `%+1`, C20.R10
# `kill -s +9`) - an inventory of the whole family instead of one more rule per function
import pp

INT_TY = re.compile(r'^(?:core::num::nonzero::NonZero<)?([iu])(?:8|16|32|64|128|size)>?$')
NUM_SCOPE = re.compile(r'^<?(?:yash_builtin::|yash_env::(?:job::id|signal|system::signal|option|trap)(?:::|\b)|yash_cli::startup(?:::|\b))')
DIGIT_PRED = re.compile(r'::(?:is_ascii_digit|is_digit|to_digit|is_ascii_octdigit|is_ascii_hexdigit)$')
# calls that hand the text (or a view of it) on: the variable a test is about is found behind them
TEXT_VIEW = re.compile(r'::(?:deref|as_str|as_ref|borrow|chars|bytes|as_bytes|char_indices|iter|next|first|peekable|trim|trim_start|'
                       r'to_string|to_owned|clone|as_deref|unwrap_or|unwrap_or_default|get)$')

# Reviewed sites where the text handed to the integer parser may carry a sign: (root function, parsed type) -> (number of such
# calls, why a sign is acceptable there).  Every other site in scope must sit behind a digit test (or reject the sign afterwards).
# The line drawn: where the operand is purely numeric (no other reading of the text exists) `+1` is the integer 1 and harmless;
# where the text could also be a NAME (signal, condition, job) a sign must not make it a number - those sites are not listed.
SIGN_REVIEWED = {
    ('yash_builtin::exit::main', 'i32'):
        (1, 'exit [n]: the manual asks for a non-negative decimal integer; a negative value is diagnosed by name ("negative exit '
            'status"), so signed text is anticipated input; `+1` is the integer 1; purely numeric operand'),
    ('yash_builtin::r#return::main', 'i32'):
        (1, 'return [n]: as exit - negative diagnosed by name, `+1` is 1, purely numeric operand'),
    ('yash_builtin::r#break::syntax::parse', 'core::num::nonzero::NonZero<usize>'):
        (1, 'break/continue [n]: "a positive decimal integer"; the unsigned type rejects `-`, `+2` is 2, purely numeric operand'),
    ('yash_builtin::shift::main', 'usize'):
        (1, 'shift [n]: "a non-negative decimal integer"; the unsigned type rejects `-`, `+1` is 1, purely numeric operand'),
    ('yash_builtin::wait::syntax::<impl core::convert::TryFrom<yash_env::semantics::Field> for yash_builtin::wait::JobSpec>::try_from', 'i32'):
        (1, 'wait pid: job IDs are taken off by their `%` before; a negative number is diagnosed by name (NonPositive), `+12` is '
            'process 12; the operand has no third reading'),
    ('yash_builtin::kill::send::resolve_target', 'i32'):
        (1, 'kill target: the sign is part of the documented grammar (a negative integer is a negated process group ID); job IDs are '
            'taken off by their `%` before'),
    ('yash_builtin::kill::syntax::is_signal_name', 'i32'):
        (1, 'only asks "is this text NOT a number" before parse_signal (digit-guarded, C20.R10) is asked for a name: a signed text is '
            'neither, whichever way this parse answers'),
    ('yash_builtin::kill::syntax::non_portable_signal_number', 'i32'):
        (1, 'portable mode only: chooses between two rejections (non-portable number / invalid signal) of the -s/-n argument; whether '
            'the text is accepted is decided by parse_signal (digit-guarded) alone'),
    ('yash_builtin::ulimit::syntax::<impl core::str::traits::FromStr for yash_builtin::ulimit::SetLimitValue>::from_str', 'u64'):
        (1, 'ulimit limit: "a non-negative integer"; the keywords unlimited/hard/soft are matched before, the unsigned type rejects '
            '`-`, `+5` is 5'),
    ('yash_builtin::getopts::indexes_from_optind', 'core::num::nonzero::NonZero<usize>'):
        (2, 'not an operand: the two halves of $OPTIND, a value the built-in writes itself; anything unparsable falls back to 1'),
    ('<yash_env::signal::Name as core::str::traits::FromStr>::from_str', 'i32'):
        (2, 'RTMIN+n / RTMAX-n: the parsed tail is REQUIRED to start with the sign (starts_with([+, -])): the sign is the grammar'),
    ('yash_env::system::signal::Signals::str2sig', 'i32'):
        (1, 'RTMIN+n / RTMAX-n: the suffix is empty or required to start with `+`/`-` before it is parsed'),
}
SIGN_EXAMPLES = {
    'yash_builtin::trap::syntax::parse_condition': "`trap '' +2` ignores SIGINT and `trap cmd +0` sets the EXIT trap",
    'yash_builtin::kill::print::to_name_and_number': '`kill -l +2` prints INT',
    'yash_builtin::kill::syntax::parse_signal': '`kill -s +9 pid` / `kill -+9 pid` send signal 9',
    'yash_builtin::umask::syntax::parse': '`umask +22` sets the mask 022 instead of being rejected as a symbolic mode',
    'yash_env::job::id::parse_tail': '`fg %+1` resumes job 1 (the documented forms are %n, %+ alone and %name)',
}


def _norm_name(n):
    if not n or n.startswith('const') or re.fullmatch(r'_\d+(\..*)?', n):
        return None
    return n.replace('__', '.')


def _text_root(body, du, o, depth=12):
    """Name of the user variable (parameter, captured variable, or failing that the last named local) whose text an operand is a
    view of, following copies, borrows, payload projections and deref / chars / bytes / next / ... calls."""
    last = None
    for _ in range(depth):
        if 'cp' not in o and 'mv' not in o:
            return last
        last = _norm_name(Q.operand_name(body, du, o)) or last
        pl = du.deref_origin(Q.operand_place(o))
        if 1 <= pl['l'] <= body.argc:
            return last
        d = du.single_def(pl['l'])
        if d is None:
            return last
        if d[1] == 't':
            if d[2]['a'] and TEXT_VIEW.search(pp.callee(d[2]).split(' [')[0]):
                o = d[2]['a'][0]
                continue
            return last
        rv = d[2].get('rv') or {}
        if rv.get('k') == 'use' and ('cp' in rv['o'] or 'mv' in rv['o']):
            o = rv['o']
        elif rv.get('k') == 'ref':
            o = {'cp': rv['pl']}
        else:
            return last
    return last


def _same_text(a, b):
    """Unknown names do not contradict; known names must denote the same variable (or a field of it)."""
    if not a or not b:
        return True
    return a == b or a.startswith(b + '.') or b.startswith(a + '.')


def _fn_tests_digits(F, name, helper_ok, memo):
    """`name` is a digit predicate of core, or a closure / small bool helper of the workspace whose own code applies one."""
    name = name.split(' [')[0]
    if DIGIT_PRED.search(name):
        return True
    key = (name, helper_ok)
    if key in memo:
        return memo[key]
    memo[key] = False
    if name not in F.bodies:
        return False
    if '{closure#' not in name.rsplit('::', 1)[-1]:
        sig = F.fns.get(name) or {}
        if not helper_ok or sig.get('output') != 'bool' or len(F.bodies[name].blocks) > 60:
            return False
    out = False
    for k, b in F.bodies.items():
        if k != name and not k.startswith(name + '::{closure#'):
            continue
        du = Q.DefUse(b)
        for blk, t in b.calls():
            if _call_tests_digits(F, b, du, t, False, memo):
                out = True
    memo[key] = out
    return out


def _call_tests_digits(F, body, du, t, helper_ok, memo):
    """The call applies a digit predicate to characters of its receiver / argument: the predicate itself, a combinator
    (starts_with, all, is_some_and, ...) given a closure or fn item that does, or a bool helper of the workspace that does."""
    if _fn_tests_digits(F, pp.callee(t), helper_ok, memo):
        return True
    for a in t['a']:
        if a.get('fn') and _fn_tests_digits(F, a['fn'], False, memo):
            return True
        if 'cp' in a or 'mv' in a:
            org = du.origin(a)
            if org['k'] == 'agg' and org['rv'].get('ak') == 'closure' and org['rv'].get('def') and \
                    _fn_tests_digits(F, org['rv']['def'], False, memo):
                return True
    return False


def _sign_chars(body, du, o, depth=4):
    """Sign characters of a pattern operand: '+' -> {'+'}, ['+', '-'] -> {'+', '-'}."""
    if depth == 0:
        return set()
    if 'c' in o:
        return set(re.findall(r"^'([+-])'$", str(o['c']).strip())) | set(re.findall(r"'([+-])'", str(o['c']))) \
            if "'" in str(o['c']) else set(re.findall(r'^"([+-])"$', str(o['c']).strip()))
    org = du.origin(o)
    out = set()
    if org['k'] == 'agg':
        for x in org['rv'].get('ops') or []:
            out |= _sign_chars(body, du, x, depth - 1)
    elif org['k'] == 'ref' and not org['pl'].get('p'):
        out |= _sign_chars(body, du, {'cp': org['pl']}, depth - 1)
    elif org['k'] == 'const' and 'c' in org['o']:
        out |= _sign_chars(body, du, org['o'], depth - 1)
    return out


STARTS_WITH = [re.compile(r'^core::str::<impl str>::starts_with(::<.*>)?$')]


def _true_implies(F, body, du, o, depth=3):
    """Conditions that hold whenever the bool operand `o` is true: its origin, and - for a materialised `a && b` (a bool local
    assigned `false` on one edge and a value on the other) - what dominates the one definition that can make it true."""
    if 'cp' not in o and 'mv' not in o:
        return []
    org = du.origin(o)
    out = [(org, ('bool', True), None)]
    if depth == 0 or org['k'] != 'place' or org['pl'].get('p') or body.locals[org['pl']['l']]['ty'] != 'bool':
        return out
    l = org['pl']['l']
    defs = [(b, st) for b, j, st in body.stmts() if st['k'] == 'assign' and st['lhs']['l'] == l and not st['lhs'].get('p')]
    cdefs = [(b, t) for b, t in body.calls() if t['dest']['l'] == l and not t['dest'].get('p')]
    keep = [(b, st) for b, st in defs
            if not (st['rv']['k'] == 'use' and 'c' in st['rv']['o'] and str(st['rv']['o']['c']) == 'false')]
    if len(keep) + len(cdefs) != 1:
        return out
    if cdefs:
        b, t = cdefs[0]
        return out + list(Q.implied_conditions(F, body, du, b)) + [({'k': 'call', 't': t, 'b': b}, ('bool', True), None)]
    b, st = keep[0]
    out += list(Q.implied_conditions(F, body, du, b))
    if st['rv']['k'] == 'use':
        out += _true_implies(F, body, du, st['rv']['o'], depth - 1)
    elif st['rv']['k'] == 'unop' and st['rv'].get('op') == 'Not':
        out.append((du.origin(st['rv']['o']), ('bool', False), None))
    return out


def _guard_among(F, body, du, conds, text, signed, memo):
    """One of the conditions establishes that `text` starts with a digit / is all digits, or that it does not start with a sign
    -> description, or None."""
    for org, lab, e in conds:
        org, lab = Q.peel_not(du, org, lab)
        if org['k'] != 'call':
            continue
        t = org['t']
        about = _text_root(body, du, t['a'][0]) if t['a'] else None
        if not _same_text(about, text):
            continue
        if lab == ('bool', True) and _call_tests_digits(F, body, du, t, True, memo):
            return 'behind the digit test %s(%s)' % (pp.callee(t).split('::')[-1], about or '..')
        if lab == ('bool', False) and Q.callee_is(t, STARTS_WITH) and len(t['a']) > 1:
            signs = _sign_chars(body, du, t['a'][1])
            if signs >= ({'+', '-'} if signed else {'+'}):
                return 'behind !%s.starts_with(%s)' % (about or '..', '/'.join(sorted(signs)))
    return None


def _digit_guard(F, body, du, blk, text, signed, memo):
    """A test that dominates block `blk` establishes it."""
    return _guard_among(F, body, du, Q.implied_conditions(F, body, du, blk), text, signed, memo)


def _value_uses(body, result_local):
    """Blocks where the payload of the Result in `result_local` is consumed (plain copies into other locals are followed; looking at
    the discriminant or borrowing the Result for a match guard is no use).  None when the Result as a whole goes on (`?`, .ok(), ...)."""
    uses = set()
    work = [(result_local, True)]
    seen = set()
    while work:
        l, is_result = work.pop()
        if l in seen:
            continue
        seen.add(l)
        for b_, j_, st in body.stmts():
            if st['k'] != 'assign':
                continue
            for p_ in Q.rvalue_places(st['rv']):
                if p_['l'] != l:
                    continue
                k = st['rv']['k']
                if is_result and k in ('ref', 'discr'):
                    continue
                if is_result and not p_.get('p'):
                    return None
                if k == 'use' and not st['lhs'].get('p') and st['lhs']['l'] != 0:
                    work.append((st['lhs']['l'], False))
                else:
                    uses.add(b_)
        for b_ in range(len(body.blocks)):
            t_ = body.term(b_)
            if t_['k'] == 'call' and any(Q.operand_local(a) == l for a in t_['a']):
                if is_result:
                    return None
                uses.add(b_)
            elif t_['k'] == 'switch' and Q.operand_local(t_['d']) == l and not is_result:
                uses.add(b_)
    return uses


def _classify_parse(F, body, blk, t, signed, memo):
    """Why a sign cannot reach this integer parse (description), or None."""
    du0 = Q.DefUse(body)
    text = _text_root(body, du0, t['a'][0]) if t['a'] else None
    # (a) a digit test dominates the call
    g = _digit_guard(F, body, du0, blk, text, signed, memo)
    if g:
        return g
    # ... also when the test was moved into a private helper of the module (inlined view, jump threading)
    ib = F.inlined(body)
    if ib is not body:
        du = Q.DefUse(ib)
        same = [(b_, t_) for b_, t_ in ib.calls() if pp.callee(t_) == pp.callee(t) and t_.get('line') == t.get('line')
                and not t_.get('file')]
        gs = [_digit_guard(F, ib, du, b_, text, signed, memo) for b_, t_ in same]
        if gs and all(gs):
            return gs[0] + ' (helper inlined)'
    # (b) the sign is rejected after the parse: every use of the parsed value (followed through plain copies) sits behind the test
    dest = t['dest']
    if not dest.get('p'):
        uses = _value_uses(body, dest['l'])
        if uses:
            gs = [_digit_guard(F, body, du0, b_, text, signed, memo) for b_ in sorted(uses)]
            if all(gs):
                return 'parsed value used only ' + gs[0]
    # (c) the parse sits in a closure that runs only behind the test: `test(s).then(|| s.parse())`, or a closure made in a guarded block
    parent = body.fn.rsplit('::', 1)[0]
    pb = F.bodies.get(parent)
    if pb is not None and '{closure#' in body.fn.rsplit('::', 1)[-1]:
        pdu = Q.DefUse(pb)
        ptext = text
        for uv in body.d.get('upvars') or []:
            ptext = ptext or _norm_name(uv.get('name'))
        for b_, j_, st in pb.stmts():
            if not (st['k'] == 'assign' and st['rv']['k'] == 'agg' and st['rv'].get('ak') == 'closure' and st['rv'].get('def') == body.fn):
                continue
            g = _digit_guard(F, pb, pdu, b_, ptext, signed, memo)
            if g:
                return 'closure made ' + g
            cl = st['lhs']['l']
            users = [(ub, ut) for ub, ut in pb.calls() if any(Q.operand_local(a) == cl for a in ut['a'])]
            descs = []
            for ub, ut in users:
                d = None
                if Q.callee_is(ut, ['core::bool::<impl bool>::then']):
                    d = _guard_among(F, pb, pdu, _true_implies(F, pb, pdu, ut['a'][0]), ptext, signed, memo)
                    d = d and 'closure run by bool::then ' + d
                d = d or _digit_guard(F, pb, pdu, ub, ptext, signed, memo)
                descs.append(d)
            if descs and all(descs):
                return descs[0]
    # (d) the parse was moved into a private helper: every caller makes the test before calling it
    if '{closure#' not in body.fn and (F.fns.get(body.fn) or {}).get('vis') not in (None, 'pub'):
        callers = [(cb_, b_, t_) for cb_, b_, t_ in F.callers_of(lambda names, t_: body.fn in names) if not is_test(cb_.fn)]
        gs = [_digit_guard(F, cb_, Q.DefUse(cb_), b_, None, signed, memo) for cb_, b_, t_ in callers]
        if gs and all(gs):
            return 'every caller calls it ' + gs[0]
    return None


def _int_parse_sites(F):
    for fn in sorted(F.bodies):
        if is_test(fn) or not NUM_SCOPE.search(fn):
            continue
        b = F.bodies[fn]
        for blk, t in b.calls():
            nm = pp.callee(t).split(' [')[0]
            ty = None
            if nm == 'core::str::<impl str>::parse':
                ty = str(t['f'].get('ga') or t['f'].get('rga') or '?')
            else:
                m = re.match(r'core::num::(?:nonzero::)?<impl (.+)>::from_str_radix$', nm) or \
                    re.match(r'<(.+) as core::str::traits::FromStr>::from_str$', nm) or \
                    re.match(r'core::num::nonzero::NonZero::<(.+)>::from_str_radix$', nm)
                if m:
                    ty = m.group(1)
            if ty is None:
                continue
            m = INT_TY.match(ty)
            generic = bool(re.fullmatch(r'[A-Z]\w*|\?', ty))      # parse::<T>: the type is decided by the caller - counts as a site
            if not m and not generic:
                continue
            yield b, blk, t, ty, (m.group(1) == 'i') if m else True


@RS.rule('C20.R11', 'K-GUARD', 'a number operand is an unsigned decimal wherever the text could also be a name: every str::parse::<integer> / '
         'from_str_radix in the built-ins, job IDs, signal names, traps and option parsing (both accept a leading `+`, the signed types '
         'also `-`) sits behind a test that the text starts with a digit / is all digits, or rejects the sign afterwards, or is a '
         'reviewed site where a sign is acceptable (`trap \'\' +2`, `trap cmd +0`, `kill -l +2`, `kill -s +9`, `%+1` are not numbers)')
def r11(cx):
    F = cx.F
    memo = {}
    per = {}
    for b, blk, t, ty, signed in _int_parse_sites(F):
        cx.fn(b.fn)
        per.setdefault((b.root, ty), []).append((b, t, _classify_parse(F, b, blk, t, signed, memo)))
    n = 0
    for (root, ty), lst in sorted(per.items()):
        unguarded = [(b, t) for b, t, v in lst if v is None]
        rev = SIGN_REVIEWED.get((root, ty))
        for b, t, v in lst:
            n += 1
            cx.cellcount(1)
            cx.site('%s: %s::<%s> at %s: %s' % (b.fn, pp.callee(t).split('::')[-1], ty, b.loc(t),
                                               v or ('reviewed: ' + rev[1] if rev else 'NEITHER GUARDED NOR REVIEWED')))
        if not unguarded or (rev and len(unguarded) <= rev[0]):
            continue
        b, t = unguarded[-1]
        what = '%s::from_str_radix' % ty if 'from_str_radix' in pp.callee(t) else 'str::parse::<%s>' % ty
        if rev:
            cx.violation(root, 'more-signed-parses-than-reviewed:%s' % ty, '%d calls of %s take text without a digit test, %d were '
                         'reviewed (%s): review the new one or put it behind a test that the text starts with a digit'
                         % (len(unguarded), what, rev[0], rev[1]), loc=b.loc(t))
        else:
            eg = SIGN_EXAMPLES.get(root)
            cx.violation(root, 'signed-number:%s' % ty, 'operand text is handed to %s, which accepts a leading `+`%s, without a test that '
                         'it starts with a digit (or is all digits) and without rejecting the sign afterwards, and the site is not in '
                         'the reviewed table of sign-tolerant operands: a signed text is read as a number where the manual knows only '
                         'unsigned numbers and names%s' % (what, ' and `-`' if not ty.startswith(('u', 'core::num::nonzero::NonZero<u')) else '',
                                                          ' - ' + eg if eg else ''), loc=b.loc(t))
    cx.floor(n, 19, 'integer parses of operand text in the built-in / job ID / signal / option code')
    for (root, ty), (cnt, why) in sorted(SIGN_REVIEWED.items()):
        if (root, ty) not in per:
            cx.site('reviewed entry without a site today (harmless): %s %s' % (root, ty))


# ---------------------------------------------------------------------------------------
# added after fix f82b90d (a login shell invoked as `-sh` did not enter the POSIXly-correct mode)
SHOPT = 'yash_env::option::Option'
STR_EQ = [re.compile(r'PartialEq(<.*>)?( for .*)?>::(eq|ne)$'), re.compile(r'^core::str::traits::<impl core::cmp::PartialEq for str>::(eq|ne)$')]
HYPHEN_REMOVERS = re.compile(r'^core::str::<impl str>::(strip_prefix|trim_start_matches|trim_matches|trim_left_matches)(::<.*>)?$')
# calls that select a part of a text / hand it on without being able to drop a leading character on purpose
NAME_NEUTRAL = re.compile(r'^core::str::<impl str>::(rsplit|split|rsplit_once|rsplitn|rsplit_terminator|split_terminator|as_ref|as_bytes)(::<.*>)?$|'
                          r'Iterator>::(next|last)$|DoubleEndedIterator>::next_back$|'
                          r'^core::option::Option::<T>::(unwrap_or|unwrap_or_default|map|map_or|and_then|unwrap|expect|or)(::<.*>)?$|'
                          r'::deref$|::as_str$|::as_ref$|^std::path::Path::(new|file_name)(::<.*>)?$|^std::ffi::os_str::OsStr::to_str$|::borrow$')


def _const_text(du, o, depth=4):
    """Literal text of an operand that is (a reference to) a string / char constant, else None."""
    for _ in range(depth):
        if 'c' in o:
            s = str(o['c'])
            m = re.fullmatch(r'"(.*)"', s, re.S) or re.fullmatch(r"'(.*)'", s, re.S)
            return m.group(1) if m else None
        org = du.origin(o)
        if org['k'] == 'const':
            o = org['o']
        elif org['k'] == 'ref' and not org['pl'].get('p'):
            o = {'cp': org['pl']}
        else:
            return None
    return None


def _backward_slice(body, du, o):
    """Locals the operand is computed from, and the calls on the way."""
    seen, calls = set(), []
    work = [Q.operand_local(o)] if ('cp' in o or 'mv' in o) else []
    while work:
        l = work.pop()
        if l is None or l in seen:
            continue
        seen.add(l)
        for b, idx, node in du.defs.get(l, []):
            if idx == 't':
                calls.append((b, node))
                work.extend(Q.operand_local(a) for a in node['a'] if 'cp' in a or 'mv' in a)
            elif node['k'] == 'assign':
                work.extend(p['l'] for p in Q.rvalue_places(node['rv']))
    return seen, calls


def _drops_first_char_behind_hyphen_test(F, body, du, blk, t):
    """`&arg0[1..]` / arg0.get(1..) / split_at(1) in a block that a successful starts_with('-') dominates."""
    if not re.search(r'Index<.*> for str>::index$|^core::str::<impl str>::(get|split_at|get_unchecked)(::<.*>)?$', pp.callee(t)) or len(t['a']) < 2:
        return False
    a = t['a'][1]
    one = str(a.get('c')).startswith('1') if 'c' in a else False
    if not one and ('cp' in a or 'mv' in a):
        org = du.origin(a)
        ops = org['rv'].get('ops') or [] if org['k'] == 'agg' else []
        one = 'RangeFrom' in str(org.get('rv', {}).get('adt')) and len(ops) == 1 and str(ops[0].get('c', '')).startswith('1')
    if not one:
        return False
    for org, lab, e in Q.implied_conditions(F, body, du, blk):
        if org['k'] == 'call' and Q.callee_is(org['t'], STARTS_WITH) and len(org['t']['a']) == 2 and \
                _const_text(du, org['t']['a'][1]) == '-' and lab == ('bool', True):
            return True
    return False


@RS.rule('C20.R12', 'K-TAINT', 'the hyphen that marks a login shell is not part of the name the shell is invoked with: where the start-up code '
         'itself takes a leading `-` of arg0 for the login marker, the name whose last component is compared with `sh` (POSIXly-correct '
         'mode) is computed from arg0 through the removal of that hyphen (`-sh` is a login shell named sh, as `-/bin/sh` is)')
def r12(cx):
    F = cx.F
    found = 0
    for fn in sorted(F.bodies):
        if not fn.startswith('yash_cli::startup::') or is_test(fn):
            continue
        if not Q.find_aggregates(F.bodies[fn], SHOPT, 'PosixlyCorrect'):
            continue
        body = F.inlined(F.bodies[fn])           # a private helper (`basename(..)`) is seen through
        aggs = Q.find_aggregates(body, SHOPT, 'PosixlyCorrect')
        du = Q.DefUse(body)
        for b, j, st in aggs:
            # the test of the name: a comparison with a string constant that decides this PosixlyCorrect
            tests = []
            for org, lab, e in Q.implied_conditions(F, body, du, b):
                org, lab = Q.peel_not(du, org, lab)
                if org['k'] != 'call' or not Q.callee_is(org['t'], STR_EQ) or len(org['t']['a']) != 2:
                    continue
                a0, a1 = org['t']['a']
                c0, c1 = _const_text(du, a0), _const_text(du, a1)
                if (c0 is None) == (c1 is None):
                    continue
                positive = (lab == ('bool', True)) == pp.callee(org['t']).endswith('eq')
                if positive:
                    tests.append((org['t'], a1 if c0 is not None else a0, c0 if c0 is not None else c1))
            if not tests:
                # `name == "sh" || name == "-sh"` / matches!(name, "sh" | "-sh"): no single comparison dominates; take every
                # comparison with a constant from which the aggregate can be reached as one alternative of the disjunction
                for cb, ct in body.calls():
                    if Q.callee_is(ct, STR_EQ) and len(ct['a']) == 2 and b in body.reachable(cb):
                        c0, c1 = _const_text(du, ct['a'][0]), _const_text(du, ct['a'][1])
                        if (c0 is None) != (c1 is None):
                            tests.append((ct, ct['a'][1] if c0 is not None else ct['a'][0], c0 if c0 is not None else c1))
            if not tests:
                continue                     # PosixlyCorrect decided by something else than a name (an option): not this rule's site
            found += 1
            cx.fn(body.fn)
            # the login marker is recognised in the same function: a leading `-` of a text parameter decides Option::Login
            login = []
            for lb, lj, lst in Q.find_aggregates(body, SHOPT, 'Login'):
                for org, lab, e in Q.implied_conditions(F, body, du, lb):
                    if org['k'] == 'call' and Q.callee_is(org['t'], [re.compile(r'^core::str::<impl str>::(starts_with|strip_prefix)(::<.*>)?$')]) \
                            and len(org['t']['a']) == 2 and _const_text(du, org['t']['a'][1]) == '-' and lab in (('bool', True), ('variant', 'Some')):
                        sl, _ = _backward_slice(body, du, org['t']['a'][0])
                        login.append({l for l in sl if 1 <= l <= body.argc})
            cx.require(login, '%s decides PosixlyCorrect by a name but does not itself take a leading `-` of its argument for the login marker '
                       '(Option::Login behind starts_with(\'-\')): where the marker is removed is not understood' % fn)
            marked_params = set().union(*login)
            for t, val, const in tests:
                if const.startswith('-'):
                    continue                 # the hyphenated spelling itself
                sl, calls = _backward_slice(body, du, val)
                from_arg0 = bool(sl & marked_params)
                others = {c for t2, v2, c in tests}
                removers = [(cb, ct) for cb, ct in calls if HYPHEN_REMOVERS.match(pp.callee(ct)) and len(ct['a']) > 1
                            and '-' in (_const_text(du, ct['a'][1]) or '')]
                removers += [(cb, ct) for cb, ct in calls if _drops_first_char_behind_hyphen_test(F, body, du, cb, ct)]
                unknown = [pp.callee(ct) for cb, ct in calls if (cb, ct) not in removers and not HYPHEN_REMOVERS.match(pp.callee(ct))
                           and not NAME_NEUTRAL.search(pp.callee(ct))]
                cx.site('%s: name compared with "%s" at %s: computed from the parameter that carries the login hyphen: %s; hyphen removed on the '
                        'way by %s' % (fn, const, body.loc(t), from_arg0, [pp.callee(ct).split('::')[-1] for cb, ct in removers] or 'NOTHING'))
                cx.require(from_arg0, '%s: the text compared with "%s" is not computed from the parameter whose leading `-` is the login '
                           'marker: shape not understood' % (fn, const))
                if removers or ('-' + const) in others:
                    continue
                cx.require(not unknown, '%s: the name compared with "%s" is computed through %s, which this rule does not know: it cannot tell '
                           'whether the login hyphen is removed' % (fn, const, sorted(set(unknown))))
                cx.violation(fn, 'login-hyphen-part-of-name:%s' % const, 'the name compared with "%s" is cut out of arg0 (%s) without removing the '
                             'leading `-` that the same function takes for the login-shell marker, and "-%s" is not accepted either: a login '
                             'shell invoked as `-%s` (how login(1) and sshd start the shell named by a relative path) does not enter the '
                             'POSIXly-correct mode, while `-/bin/%s` and `%s` do' % (const, ', '.join(pp.callee(ct).split('::')[-1] for cb, ct in calls)
                                                                                   or 'directly', const, const, const, const), loc=body.loc(t))
    cx.require(found >= 1, 'no function of yash_cli::startup decides Option::PosixlyCorrect by comparing a name with a string constant '
               '(anchor moved: review how `sh` is recognised)')


# ---------------------------------------------------------------------------------------
# added after seed wave 4 (C20-s7: typeset's try_parse_short declined `-+x`, which try_parse_long does not claim either)
# Finite-domain evaluation of the bespoke option parsers that split the work between a short-option and a long-option function
# (typeset, set, the shell command line): each function is evaluated (path enumeration over its MIR with the interpreter of
# rules/C02.py, texts and the argument list concrete, everything else unconstrained) on every argument text of length <= 3
# over the alphabet {-, +, x}.
from rules.C02 import Sym, SymLimit, mk_enum


class _Txt(str):
    """A concrete text (the value of a &str / String the evaluation knows)."""


_ARGLIST = ('c', '<the argument list>')
_M_ARGS, _M_POS, _M_ARG0 = ('M', 'args'), ('M', 'args.pos'), ('M', 'args[0]')
SIGN_DOMAIN = [''.join(t) for n in range(0, 4) for t in __import__('itertools').product('-+x', repeat=n)]
# drivers whose option loop asks a short-option function and then a long-option function about the next argument
SPLIT_PARSERS = {
    # driver: (what, the signs that introduce options there, what happens to an unclaimed `<sign><sign>p`)
    'yash_builtin::typeset::syntax::parse': ('typeset / export / readonly', '-+',
                                             '`export %sp foo=bar` defines and exports a variable named `%sp` and exits 0'),
    'yash_builtin::set::syntax::parse': ('set', '-+', '`set %se` makes `%se` the first positional parameter and exits 0'),
    'yash_cli::startup::args::parse': ('the shell command line', '-+', '`yash %se` takes `%se` for the name of a script to run'),
    'yash_builtin::common::syntax::parse_arguments': ('the generic built-in parser', '-',
                                                      '`cd %sP dir` takes `%sP` for the directory operand'),
}
# arguments beginning with a sign that are documented not to be options: the lone `-` (an operand, docs/src/builtins/README.md),
# the lone `+` (likewise an operand for the parsers that know `+`), and the `--` separator (dropped by the driver itself)
SIGN_NOT_OPTION = {'-', '+', '--'}


def _unescape(s):
    try:
        return __import__('ast').literal_eval('"%s"' % s.replace('"', '\\"')) if '\\' in s else s
    except Exception:
        return None


class _ArgSym(Sym):
    """Sym with concrete texts / characters, call alternatives that can update memory, and a record of the branches taken on
    the result of a call the evaluation has no model for."""

    def const(self, o):
        ty, c = o.get('ty', ''), o.get('c')
        if isinstance(c, str) and 'cdef' not in o and 'fn' not in o:
            if ty == 'char' and len(c) >= 3 and c[0] == "'" and c[-1] == "'":
                ch = _unescape(c[1:-1])
                if ch is not None and len(ch) == 1:
                    return ('c', ord(ch))
            if ty == '&str' and len(c) >= 2 and c[0] == '"' and c[-1] == '"':
                tx = _unescape(c[1:-1])
                if tx is not None:
                    return ('c', _Txt(tx))
        return Sym.const(self, o)

    def _finish_call(self, st, t, args, alt):
        Sym._finish_call(self, st, t, args, alt)
        if len(alt) > 3 and alt[3]:
            alt[3](st)

    def loc(self, st, place):
        # a `&str` the evaluation knows is carried as the text itself: `&*name` is the same text again
        proj = place.get('p') or []
        if proj and proj[0] == '*':
            v = self.read(st, ('L', place['l']), ())
            if v[0] == 'c' and isinstance(v[1], _Txt):
                root = ('M', 'text %r' % str(v[1]))
                st.mem[root] = v
                return self._loc_from(st, root, proj[1:])
        return Sym.loc(self, st, place)

    def _loc_from(self, st, root, proj):
        path = ()
        for e in proj:
            if isinstance(e, dict) and 'f' in e:
                path = path + (str(e['f']),)
            elif isinstance(e, dict) and 'v' in e:
                continue
            elif e == '*':
                v = self.read(st, root, path)
                if v[0] == 'ref':
                    root, path = v[1], v[2]
                else:
                    root, path = ('M', '*?'), ()
            else:
                path = path + ('[]',)
        return root, path

    def switch_alts(self, st, t, v, tmap):
        alts = Sym.switch_alts(self, st, t, v, tmap)
        tag = v[1] if v[0] == 'u' else (v[4] if v[0] == 'discr' else None)
        if isinstance(tag, str) and 'call:' in tag and len(alts) > 1:
            def wrap(refine):
                def r(s):
                    refine(s)
                    s.events.append(('x-fork', tag))
                return r
            alts = [(lab, tgt, wrap(refine)) for lab, tgt, refine in alts]
        return alts


def _subcall(sym, st, cb, vals):
    """Evaluate a call of a body of the workspace (a closure, a helper of the module) in the caller's memory: locals of the
    caller that the arguments refer to are copied in and out.  -> ('fork', alternatives) or None (call stays opaque)."""
    depth = getattr(sym, 'depth', 0)
    if depth >= 3 or cb.d.get('coroutine') or len(cb.blocks) > 150 or len(vals) != cb.argc:
        return None
    init, back = {}, {}

    def marshal(v, d=0):
        if v is None or d > 5:
            return v
        if v[0] == 'ref' and v[1][0] == 'L':
            m = ('M', 'frame%d.%s' % (depth, v[1][1]))
            if m not in init:
                back[m] = v[1]
                init[m] = ('u', sym.roottag(v[1]))
                cur = st.mem.get(v[1])
                if cur is not None:
                    init[m] = marshal(cur, d + 1)
            return ('ref', m, v[2])
        if v[0] == 'enum':
            return ('enum', v[1], {k: marshal(x, d + 1) for k, x in v[2].items()}, v[3])
        if v[0] == 'agg':
            return ('agg', {k: marshal(x, d + 1) for k, x in v[1].items()}, v[2])
        return v

    def unmarshal(v, d=0):
        if v is None or d > 5:
            return v
        if v[0] == 'ref':
            if v[1] in back:
                return ('ref', back[v[1]], v[2])
            if v[1][0] == 'L':
                return ('u', 'ref-to-callee-local')
            return v
        if v[0] == 'enum':
            return ('enum', v[1], {k: unmarshal(x, d + 1) for k, x in v[2].items()}, v[3])
        if v[0] == 'agg':
            return ('agg', {k: unmarshal(x, d + 1) for k, x in v[1].items()}, v[2])
        if v[0] == 'discr':
            return ('u', 'discr-of-callee')
        return v

    for r, v in st.mem.items():
        if r[0] == 'M':
            init[r] = marshal(v)
    for i, v in enumerate(vals):
        init[i + 1] = marshal(sym.resolve(st, v))
    try:
        sub = _ArgSym(sym.F, cb, oracle=sym.oracle, max_visits=sym.max_visits, max_paths=300, max_steps=60000)
        sub.depth = depth + 1
        outs = sub.run(init=init)
    except SymLimit:
        return None
    rets = [o for o in outs if o['end'] == 'return']
    if not rets:
        return None
    alts = []
    for o in rets:
        def refine(s, o=o):
            for r, v in o['state'].mem.items():
                if r in back:
                    s.mem[back[r]] = unmarshal(v)
                elif r[0] == 'M' and not r[1].startswith('frame%d.' % depth):
                    s.mem[r] = unmarshal(v)
            s.events.extend(e for e in o['events'] if isinstance(e[0], str) and e[0].startswith('x-'))
        alts.append((None, unmarshal(o['ret']), {}, refine))
    return ('fork', alts)


_RE_PEEK = re.compile(r'Peekable::<.*>::(peek|peek_mut)$')
_RE_NEXT_IF = re.compile(r'Peekable::<.*>::next_if$')
_RE_NEXT_IF_EQ = re.compile(r'Peekable::<.*>::next_if_eq$')
_RE_ITER_NEXT = re.compile(r'Iterator>?::next$')
_RE_VIEW = re.compile(r'::(deref|deref_mut|as_str|as_mut_str|as_ref|borrow|into_iter)$')
_RE_OWN = re.compile(r'::(to_owned|to_string|clone|into|from)$')
_RE_STR = re.compile(r'^(core::str::<impl str>|alloc::string::String)::(\w+)(::<.*>)?$')
_RE_OPT = re.compile(r'^core::option::Option::<T>::(\w+)(::<.*>)?$')


def _arg_oracle(modprefix):
    """Models of the calls an option function makes while it decides whether the next argument is its business."""

    def oracle(sym, st, t, args):
        def text(v):
            v = sym.deref(st, v)
            if v is not None and v[0] == 'agg' and v[2] == 'ARG':
                v = v[1]['value']
            return v[1] if v is not None and v[0] == 'c' and isinstance(v[1], _Txt) else None

        def is_args(v):
            return sym.deref(st, v) == _ARGLIST

        def pending():
            """The next argument (a reference to it), or None at the end of the list."""
            pos = st.mem[_M_POS][1]
            return ('ref', _M_ARG0, ()) if pos == 0 else None

        def consume(how):
            def refine(s):
                s.mem[_M_POS] = ('c', s.mem[_M_POS][1] + 1)
                s.events.append(('x-consume', how, sym.body.fn, t.get('line')))
            return refine

        def call_fn(fnval, argvals):
            """Alternatives of calling a closure / fn item of the workspace: ('fork', [(None, value, {}, refine)]) or None."""
            fnval = sym.resolve(st, fnval)
            if fnval[0] == 'agg' and isinstance(fnval[2], str) and fnval[2].startswith('closure '):
                cb = sym.F.bodies.get(fnval[2][len('closure '):])
                if cb is not None and cb.argc == 1 + len(argvals):
                    env = fnval
                    if cb.locals[1]['ty'].startswith('&'):
                        root = ('M', 'closure-env@%s' % t.get('line'))
                        st.mem[root] = fnval
                        env = ('ref', root, ())
                    return _subcall(sym, st, cb, [env] + list(argvals))
            elif fnval[0] == 'c' and isinstance(fnval[1], str) and fnval[1].startswith('fn '):
                cb = sym.F.bodies.get(fnval[1][3:])
                if cb is not None and cb.argc == len(argvals):
                    return _subcall(sym, st, cb, list(argvals))
            return None

        def call_pred(pred, item):
            return call_fn(pred, [item])

        def mapped(res, f):
            """The alternatives `res` with f applied to each value."""
            if res is None:
                return None
            return ('fork', [(a[0], f(a[1]), a[2], a[3] if len(a) > 3 else None) for a in res[1]])

        decl = t['f'].get('decl') or ''
        name = (t['f'].get('def') or decl)
        # ---- the argument list
        if args and is_args(args[0]):
            if Q.callee_is(t, [_RE_PEEK]):
                p = pending()
                return mk_enum('Some', p) if p else mk_enum('None')
            if decl.endswith('Iterator::next') or _RE_ITER_NEXT.search(name):
                if pending() is None:
                    return mk_enum('None')
                return ('fork', [(None, mk_enum('Some', st.mem[_M_ARG0]), {}, consume('next'))])
            if Q.callee_is(t, [_RE_NEXT_IF]) and len(args) == 2:
                p = pending()
                if p is None:
                    return mk_enum('None')
                res = call_pred(args[1], p)
                alts = []
                if res is None:
                    res = ('fork', [(None, ('u', 'call:next_if-predicate'), {}, None)])
                for alt in res[1]:
                    v = alt[1]
                    inner = alt[3] if len(alt) > 3 else None

                    def both(s, inner=inner, take=None):
                        if inner:
                            inner(s)
                        if take:
                            take(s)
                    if v == ('c', True):
                        alts.append((None, mk_enum('Some', st.mem[_M_ARG0]), {}, lambda s, inner=inner: both(s, inner, consume('next_if'))))
                    elif v == ('c', False):
                        alts.append((None, mk_enum('None'), {}, lambda s, inner=inner: both(s, inner)))
                    else:
                        def unknown(s, inner=inner, take=None):
                            both(s, inner, take)
                            s.events.append(('x-fork', 'call:next_if-predicate'))
                        alts.append((None, mk_enum('Some', st.mem[_M_ARG0]), {}, lambda s, inner=inner: unknown(s, inner, consume('next_if'))))
                        alts.append((None, mk_enum('None'), {}, lambda s, inner=inner: unknown(s, inner)))
                return ('fork', alts)
            if Q.callee_is(t, [_RE_NEXT_IF_EQ]) and len(args) == 2:
                p = pending()
                if p is None:
                    return mk_enum('None')
                a, b = text(p), text(args[1])
                if a is not None and b is not None:
                    if a == b:
                        return ('fork', [(None, mk_enum('Some', st.mem[_M_ARG0]), {}, consume('next_if_eq'))])
                    return mk_enum('None')
                return None
            if _RE_VIEW.search(name) or name.endswith('::peekable') or name.endswith('::by_ref') or name.endswith('::fuse'):
                return args[0]
            return None
        # ---- characters of a text
        if name == 'core::str::<impl str>::chars' and args:
            tx = text(args[0])
            return ('agg', {'text': ('c', tx), 'i': ('c', 0)}, 'Chars') if tx is not None else None
        if args:
            it = sym.deref(st, args[0])
            if it is not None and it[0] == 'agg' and it[2] == 'Chars' and isinstance(it[1]['text'][1], _Txt):
                tx, i = it[1]['text'][1], it[1]['i'][1]
                if decl.endswith('Iterator::next') or _RE_ITER_NEXT.search(name):
                    if args[0][0] != 'ref':
                        return None
                    if i < len(tx):
                        sym.write(st, args[0][1], args[0][2], ('agg', {'text': ('c', tx), 'i': ('c', i + 1)}, 'Chars'), event=False)
                        return mk_enum('Some', ('c', ord(tx[i])))
                    return mk_enum('None')
                if name.endswith('Chars::<\'a>::as_str') or name.endswith('::as_str'):
                    return ('c', _Txt(tx[i:]))
                if decl.endswith('Iterator::skip') and len(args) == 2 and args[1][0] == 'c' and isinstance(args[1][1], int):
                    return ('agg', {'text': ('c', tx), 'i': ('c', min(len(tx), i + args[1][1]))}, 'Chars')
                if _RE_VIEW.search(name) or _RE_OWN.search(name):
                    return it
                return None
        # ---- texts
        m = _RE_STR.match(name)
        if m and args:
            op = m.group(2)
            tx = text(args[0])
            if tx is None:
                return None
            pat = None
            if len(args) > 1:
                p = sym.deref(st, args[1])
                if p is not None and p[0] == 'c' and isinstance(p[1], _Txt):
                    pat = str(p[1])
                elif p is not None and p[0] == 'c' and isinstance(p[1], int) and not isinstance(p[1], bool) and (t.get('at') or ['', ''])[1] == 'char':
                    pat = chr(p[1])
            if op == 'is_empty':
                return ('c', len(tx) == 0)
            if op == 'len':
                return ('c', len(tx.encode()))
            if op in ('as_str', 'as_ref', 'borrow', 'deref'):
                return args[0]
            if pat is not None:
                if op == 'starts_with':
                    return ('c', tx.startswith(pat))
                if op == 'ends_with':
                    return ('c', tx.endswith(pat))
                if op == 'contains':
                    return ('c', pat in tx)
                if op == 'strip_prefix':
                    return mk_enum('Some', ('c', _Txt(tx[len(pat):]))) if tx.startswith(pat) else mk_enum('None')
                if op == 'strip_suffix':
                    return mk_enum('Some', ('c', _Txt(tx[:len(tx) - len(pat)]))) if tx.endswith(pat) else mk_enum('None')
            return None
        if args and (_RE_VIEW.search(name) or name.endswith('AsRef::as_ref')) and text(args[0]) is not None:
            return args[0]
        if args and _RE_OWN.search(name) and text(args[0]) is not None and len(args) == 1:
            return ('c', text(args[0]))
        # ---- Option
        m = _RE_OPT.match(name)
        if m and args:
            v = sym.deref(st, args[0])
            if v is not None and v[0] == 'enum' and v[1] in ('Some', 'None'):
                op, some = m.group(1), v[1] == 'Some'
                x = sym.field(v, '0') if some else None
                if op == 'is_some':
                    return ('c', some)
                if op == 'is_none':
                    return ('c', not some)
                if some and op in ('unwrap', 'expect', 'unwrap_or', 'unwrap_or_default', 'unwrap_or_else'):
                    return x
                if not some and op == 'unwrap_or' and len(args) == 2:
                    return args[1]
                if op in ('is_some_and', 'is_none_or') and len(args) == 2:
                    return call_fn(args[1], [x]) if some else ('c', op == 'is_none_or')
                if op == 'map' and len(args) == 2:
                    return mapped(call_fn(args[1], [x]), lambda r: mk_enum('Some', r)) if some else mk_enum('None')
                if op == 'map_or' and len(args) == 3:
                    return call_fn(args[2], [x]) if some else args[1]
                if op == 'and_then' and len(args) == 2:
                    return call_fn(args[1], [x]) if some else mk_enum('None')
                if op == 'filter' and len(args) == 2:
                    if not some:
                        return mk_enum('None')
                    root = ('M', 'filter-item@%s' % t.get('line'))
                    st.mem[root] = x
                    res = call_fn(args[1], [('ref', root, ())])
                    if res is None or any(a[1] not in (('c', True), ('c', False)) for a in res[1]):
                        return None
                    return mapped(res, lambda r: v if r == ('c', True) else mk_enum('None'))
                if op in ('as_ref', 'as_deref', 'copied', 'cloned', 'as_mut'):
                    return v
            return None
        if name == 'core::bool::<impl bool>::then_some' and len(args) == 2 and args[0][0] == 'c' and isinstance(args[0][1], bool):
            return mk_enum('Some', args[1]) if args[0][1] else mk_enum('None')
        if name.startswith('core::bool::<impl bool>::then') and len(args) == 2 and args[0][0] == 'c' and isinstance(args[0][1], bool):
            return mapped(call_fn(args[1], []), lambda r: mk_enum('Some', r)) if args[0][1] else mk_enum('None')
        # ---- helpers of the same module (a test of the text moved into `fn is_short_option(&str) -> bool`, a nested fn, ...)
        d = t['f'].get('def')
        if d and d.startswith(modprefix) and d in sym.F.bodies and any(text(a) is not None or is_args(a) for a in args):
            return _subcall(sym, st, sym.F.bodies[d], args)
        return None

    return oracle


def _claim_verdicts(F, body, modprefix, s):
    """What the option function does with the argument list [s]: set of 'claims' (the argument is consumed or an error is
    returned) / 'declines' (returns Ok(false) / Ok(None) leaving the argument) / ('unknown', why), and the names of the
    unmodelled calls whose result a declining path branched on."""
    init = {_M_ARGS: _ARGLIST, _M_POS: ('c', 0), _M_ARG0: ('agg', {'value': ('c', _Txt(s))}, 'ARG')}
    n = 0
    for l in range(1, body.argc + 1):
        if 'Peekable<' in body.locals[l]['ty']:
            init[l] = ('ref', _M_ARGS, ()) if body.locals[l]['ty'].startswith('&') else _ARGLIST
            n += 1
    if n != 1:
        return {('unknown', 'no single Peekable parameter')}, set(), []
    sym = _ArgSym(F, body, _arg_oracle(modprefix), max_visits=6, max_paths=1500, max_steps=150000)
    try:
        outs = sym.run(init)
    except SymLimit as e:
        return {('unknown', str(e))}, set(), []
    verdicts, blind, how = set(), set(), []
    for o in outs:
        cons = [e for e in o['events'] if e[0] == 'x-consume']
        forks = {e[1] for e in o['events'] if e[0] == 'x-fork'}
        if cons:
            verdicts.add('claims')
            how.append('%s() in %s' % (cons[0][1], cons[0][2].split('::')[-1]))
            continue
        if o['end'] != 'return':
            if o['end'] == 'cutoff':
                verdicts.add(('unknown', 'a loop that does not consume the argument was cut off'))
            continue                                  # a panic: no outcome
        r = o['ret']
        if r is not None and r[0] == 'enum' and r[1] == 'Err':
            verdicts.add('claims')
            how.append('error')
            continue
        p = sym.field(r, '0') if r is not None and r[0] == 'enum' and r[1] == 'Ok' else None
        if p == ('c', False) or (p is not None and p[0] == 'enum' and p[1] == 'None'):
            verdicts.add('declines')
            blind |= forks
        elif p == ('c', True) or (p is not None and p[0] == 'enum' and p[1] == 'Some'):
            verdicts.add('claims')
            how.append('answers yes without consuming')
        else:
            verdicts.add(('unknown', 'result %s' % (r,)))
    return verdicts, blind, how


def _split_claimers(F, driver):
    """The option functions of a driver: functions of its module it calls with the peekable argument list."""
    mod = driver.rsplit('::', 1)[0] + '::'
    out = []
    for b in F.logical(driver):
        for blk, t in b.calls():
            d = t['f'].get('def')
            if d and d.startswith(mod) and d in F.bodies and d not in out and not is_test(d) and \
                    any('Peekable<' in F.bodies[d].locals[l]['ty'] for l in range(1, F.bodies[d].argc + 1)):
                out.append(d)
    return mod, out


@RS.rule('C20.R13', 'K-TABLE', 'the parsers that ask a short-option function and then a long-option function (typeset/export/readonly, '
         'set, the shell command line, the generic built-in parser): on every argument text over {-, +, other}^<=3 the two functions together claim (consume or reject) '
         'every argument that begins with a sign - except the documented lone `-`, `+` and `--` - and claim no other argument: no '
         'malformed option (`-+x`, `+-p`) falls through to the operands')
def r13(cx):
    F = cx.F
    for driver, (what, signs, example) in sorted(SPLIT_PARSERS.items()):
        cx.require(driver in F.bodies, 'the parser %s (%s) was not found' % (driver, what))
        mod, claimers = _split_claimers(F, driver)
        cx.require(len(claimers) >= 2, '%s does not call a short-option and a long-option function of its module with the peekable '
                   'argument list any more (found %s): review how %s splits option parsing' % (driver, claimers, what))
        cx.fn(driver)
        table = {}
        for c in claimers:
            cx.fn(c)
            for s in SIGN_DOMAIN:
                table[(c, s)] = _claim_verdicts(F, F.bodies[c], mod, s)
                cx.cellcount(1)
        unclaimed, stolen = {}, {}
        for s in SIGN_DOMAIN:
            row = {c: table[(c, s)] for c in claimers}
            unknown = [(c, v) for c in claimers for v in row[c][0] if isinstance(v, tuple)]
            cx.require(not unknown, '%s: the evaluation of %s on the argument %r is not decidable: %s'
                       % (driver, unknown and unknown[0][0], s, unknown and unknown[0][1][1]))
            sure = [c for c in claimers if row[c][0] == {'claims'}]
            maybe = [c for c in claimers if 'claims' in row[c][0]]
            if s and s[0] in signs and s not in SIGN_NOT_OPTION:
                if not sure:
                    blind = set().union(*[row[c][1] for c in claimers])
                    cx.require(not blind, '%s: whether the argument %r is claimed depends on the result of %s, which the evaluation has no '
                               'model for' % (driver, s, sorted(blind)))
                    unclaimed.setdefault(s[:2], []).append(s)
            elif not s or s[0] not in signs:
                if maybe:
                    stolen.setdefault(s[:1], []).append((s, maybe[0]))
        names = [c.split('::')[-1] for c in claimers]
        for s in ('-x', '+x', '--x', '++x', '-+', '+-', '-', '+', '--', '++', 'x', ''):
            cx.site('%s: argument %r: %s' % (what, s, '; '.join('%s %s' % (n, '/'.join(sorted(table[(c, s)][0])) +
                                                                          (' (%s)' % table[(c, s)][2][0] if table[(c, s)][2] else ''))
                                                                 for n, c in zip(names, claimers))))
        h = F.hir.get(driver)
        loc = hloc(h) if h else None
        for pre, ss in sorted(unclaimed.items()):
            cx.violation(driver, 'sign-argument-unclaimed:%s' % pre, '%s: an argument beginning with `%s` (%s) is claimed neither by %s: the '
                         'option loop ends there and the malformed option silently becomes an operand - %s instead of reporting an '
                         'unknown option with a non-zero status and no effect'
                         % (what, pre, ', '.join('`%s`' % x for x in ss), ' nor by '.join(names), example.replace('%s', pre)), loc=loc)
        for pre, ss in sorted(stolen.items()):
            cx.violation(driver, 'operand-claimed:%s' % (pre or 'empty'), '%s: the argument %r, which does not begin with %s, is taken '
                         'by %s: an operand is parsed (or rejected) as an option'
                         % (what, ss[0][0], ' or '.join('`%s`' % c for c in signs), ss[0][1].split('::')[-1]), loc=loc)


# ---------------------------------------------------------------------------------------
# added after seed wave 4 (C20-s8: `--rcfile -rc` was "missing argument" because the next argument was fetched with next_if)
# The "option-argument is missing" errors of the option parsers of the workspace: (enum, variant) -> which parser.
MISSING_OPTARG = {
    ('yash_builtin::common::syntax::ParseError', 'MissingOptionArgument'): 'the generic built-in parser (-x ARG / --name ARG)',
    ('yash_builtin::set::syntax::Error', 'MissingOptionArgument'): 'set -o NAME',
    ('yash_cli::startup::args::Error', 'MissingOptionArgument'): 'the shell command line (-o NAME, --profile FILE, --rcfile FILE)',
    ('yash_builtin::kill::syntax::Error', 'MissingSignal'): 'kill -s SIGNAL / -n NUMBER',
    ('yash_builtin::getopts::model::Error', 'MissingArgument'): 'getopts (letter followed by `:` in the option string)',
}
# `Missing...` variants that are not about the argument of an option (reviewed): operands / whole invocations
MISSING_OTHER = {
    ('yash_builtin::unalias::syntax::Error', 'MissingArgument'): 'neither an option nor an operand was given at all',
}
# fetches of the next element that cannot look at it
PLAIN_FETCH = [re.compile(r'Iterator>?::next$'), re.compile(r'Peekable::<.*>::(peek|peek_mut)$'),
               re.compile(r'^core::slice::<impl \[T\]>::(get|first)(::<.*>)?$')]
OPTION_EMPTY = {'is_none': True, 'is_some': False}


def _none_sources(body, du, local, depth=6):
    """Where a `None` in the Option local can come from: the producing calls (moves, borrows and `?` followed; a local merged
    from several branches is followed into each branch, `Some(..)` built in a branch cannot be None), 'literal-None' for an
    explicit None, 'unknown' when the value cannot be traced."""
    defs = du.defs.get(local, [])
    if len(defs) == 1:
        t = Q.value_source(body, du, {'cp': {'l': local}})
        if t is not None:
            return [t]
    if not defs or depth == 0:
        return ['unknown']
    out = []
    for blk, idx, node in defs:
        if idx == 't':
            out.append(node)
            continue
        if node['k'] != 'assign' or node['lhs'].get('p'):
            out.append('unknown')
            continue
        rv = node['rv']
        if rv['k'] == 'agg' and rv.get('ak') == 'adt' and rv.get('adt') == 'core::option::Option':
            if rv.get('variant') != 'Some':
                out.append('literal-None')
        elif rv['k'] == 'use' and Q.operand_place(rv['o']) is not None and not Q.operand_place(rv['o']).get('p'):
            out.extend(_none_sources(body, du, Q.operand_place(rv['o'])['l'], depth - 1))
        else:
            out.append('unknown')
    return out


def _always_true(F, body, du, o):
    """The predicate operand is a closure / fn whose body is `true` whatever the argument (`next_if(|_| true)`, the spelling of
    next() that does not poll an exhausted iterator again)."""
    org = du.origin(o)
    d = None
    if org['k'] == 'agg' and org['rv'].get('ak') == 'closure':
        d = org['rv'].get('def')
    elif org['k'] == 'const' and org['o'].get('fn'):
        d = org['o']['fn']
    cb = F.bodies.get(d) if d else None
    if cb is None or any(True for _ in cb.calls()):
        return False
    rets = [st for _, _, st in cb.stmts() if st['k'] == 'assign' and st['lhs']['l'] == 0 and not st['lhs'].get('p')]
    return bool(rets) and all(st['rv']['k'] == 'use' and str(st['rv']['o'].get('c')) == 'true' for st in rets)


def _is_arg_fetch(F, body, du, t):
    """An unconditional fetch of the next argument (not of the next character of a text)."""
    if Q.callee_is(t, [re.compile(r'Peekable::<.*>::next_if$')]) and len(t['a']) == 2 and _always_true(F, body, du, t['a'][1]):
        return True
    if not Q.callee_is(t, PLAIN_FETCH):
        return False
    ty = body.locals[t['dest']['l']]['ty'] if not t['dest'].get('p') else ''
    return 'Option<char>' not in ty and 'Option<u8>' not in ty and 'Option<&u8>' not in ty


def _missing_decided_by(F, body, blk, st):
    """How the block constructing the `missing argument` error is reached -> (verdict, callee name, call).
    verdict 'exhausted': behind `None` of an unconditional fetch of the next argument (match / if-let / let-else / is_none /
    ok_or / ok_or_else / `?`); 'predicate': behind `None` of a fetch that looks at the argument (next_if, find, filter, ...)
    or of an explicit None; 'undecided': no test of a fetched Option decides it."""
    du = Q.DefUse(body)
    found = []

    def note(b_, du_, sources):
        """One emptiness test: exhausted when every way the Option can be None is an unconditional fetch."""
        calls = [x for x in sources if isinstance(x, dict)]
        if not sources or 'unknown' in sources:
            return
        bad = [x for x in calls if not _is_arg_fetch(F, b_, du_, x)]
        if 'literal-None' in sources and not bad:
            found.append(('predicate', 'an explicit None', calls[0] if calls else None))
        elif bad:
            found.append(('predicate', pp.callee(bad[0]).split(' [')[0], bad[0]))
        elif calls:
            found.append(('exhausted', pp.callee(calls[0]).split(' [')[0], calls[0]))

    def of_operand(b_, du_, o):
        pl = Q.operand_place(o)
        if pl is None:
            return []
        org = du_.origin(o)
        if org['k'] in ('ref', 'place') and not org['pl'].get('p'):
            pl = org['pl']
        return _none_sources(b_, du_, pl['l'])

    # `fetch.ok_or(Missing)` / `.ok_or_else(|| Missing)`: the error value is built before the test
    for b_, t in body.calls():
        if Q.callee_is(t, [re.compile(r'^core::option::Option::<T>::ok_or(::<.*>)?$')]) and len(t['a']) == 2:
            org = du.origin(t['a'][1])
            if org['k'] == 'agg' and org['rv'] is st['rv']:
                note(body, du, of_operand(body, du, t['a'][0]))
    if '{closure#' in body.fn.rsplit('::', 1)[-1]:
        parent = F.bodies.get(body.fn.rsplit('::', 1)[0])
        if parent is not None:
            pdu = Q.DefUse(parent)
            for b_, t in parent.calls():
                if Q.callee_is(t, [re.compile(r'^core::option::Option::<T>::ok_or_else(::<.*>)?$')]) and len(t['a']) == 2:
                    org = pdu.origin(t['a'][1])
                    if org['k'] == 'agg' and org['rv'].get('ak') == 'closure' and org['rv'].get('def') == body.fn:
                        note(parent, pdu, of_operand(parent, pdu, t['a'][0]))
    # tests that dominate the construction
    for org, lab, e in Q.implied_conditions(F, body, du, blk):
        org, lab = Q.peel_not(du, org, lab)
        if org['k'] == 'discr' and lab == ('variant', 'None') and 'Option<' in str(org.get('ty')) and not org['pl'].get('p'):
            note(body, du, _none_sources(body, du, org['pl']['l']))
        elif org['k'] == 'call' and org['t']['a']:
            nm = pp.callee(org['t']).split(' [')[0]
            m = re.match(r'^core::option::Option::<T>::(is_none|is_some)$', nm)
            if m and lab == ('bool', OPTION_EMPTY[m.group(1)]):
                note(body, du, of_operand(body, du, org['t']['a'][0]))
    for want in ('exhausted', 'predicate'):
        for v, nm, t in found:
            if v == want:
                return v, nm, t
    return 'undecided', None, None


@RS.rule('C20.R14', 'K-GUARD', 'an option-argument given as the next argument is that argument whatever it looks like: in every option parser '
         '(generic built-in parser, set, kill, getopts, the shell command line) the `option-argument is missing` error is decided by the '
         'end of the argument list alone - `None` of an unconditional next()/peek() - never by a fetch that inspects the text (next_if, '
         'find, a guard on the fetched argument): `--rcfile -rc` is `--rcfile=-rc`, `-o -x` gives `-x` to -o')
def r14(cx):
    F = cx.F
    # the variants this rule is about exist; a new `Missing...Argument` variant somewhere must be classified first
    for (adt, var), what in sorted(MISSING_OPTARG.items()):
        a = F.adts.get(adt)
        cx.require(a is not None and any(v['name'] == var for v in a.get('variants') or []),
                   'the error variant %s::%s (%s) does not exist any more: review how that parser reports a missing option-argument'
                   % (adt, var, what))
    for path, a in sorted(F.adts.items()):
        if not path.startswith(('yash_builtin::', 'yash_cli::')):
            continue
        for v in a.get('variants') or []:
            if re.search(r'Missing.*Arg', v['name']) and (path, v['name']) not in MISSING_OPTARG:
                cx.require((path, v['name']) in MISSING_OTHER, 'new error variant %s::%s: say in rules/C20.py whether it reports a missing '
                           'option-argument (MISSING_OPTARG) or something else (MISSING_OTHER)' % (path, v['name']))
    per = {k: 0 for k in MISSING_OPTARG}
    for fn in sorted(F.bodies):
        if is_test(fn) or not fn.startswith(('yash_builtin::', 'yash_cli::')):
            continue                                    # (trait impls such as the derived Clone start with `<`)
        body0 = F.bodies[fn]
        if not any((st['rv']['adt'], st['rv']['variant']) in MISSING_OPTARG for _, _, st in Q.find_aggregates(body0)):
            continue
        body = F.inlined(body0)                        # a fetch moved into a private helper is seen through
        cx.fn(fn)
        for blk, j, st in Q.find_aggregates(body):
            key = (st['rv']['adt'], st['rv']['variant'])
            if key not in MISSING_OPTARG:
                continue
            per[key] += 1
            cx.cellcount(1)
            verdict, nm, t = _missing_decided_by(F, body, blk, st)
            cx.site('%s: %s::%s at %s: %s%s' % (fn, key[0].split('::')[-2], key[1], body.loc(st), verdict,
                                               ' (%s at %s)' % (nm.split('::')[-1], body.loc(t)) if t is not None else ''))
            if verdict == 'exhausted':
                continue
            if verdict == 'predicate' and nm == 'an explicit None':
                how = 'a branch makes the option-argument an explicit None although the argument list may hold one'
            elif verdict == 'predicate':
                how = ('the next argument is fetched with %s, which looks at its text and answers None for an argument that is there'
                       % nm.split('::')[-1].split('<')[0])
            else:
                how = 'it is not reached behind `None` of an unconditional next()/peek() on the argument list'
            cx.violation(body0.root, 'missing-argument-not-by-exhaustion:%s' % key[1], '%s: the error %s is reported although the argument list '
                         'may not be exhausted - %s. An option-argument given as the next argument must be taken whatever it looks like '
                         '(`--rcfile -rc` = `--rcfile=-rc`, `-o -x`, `-s -9`): with a predicate the separate spelling is rejected as '
                         '"missing argument" (or the argument is left to be parsed as an option) while the attached spelling is accepted'
                         % (MISSING_OPTARG[key], key[1], how), loc=body.loc(st))
    for key, n in sorted(per.items()):
        if n == 0:
            cx.violation(key[0], 'missing-argument-never-reported:%s' % key[1], '%s: nothing constructs %s::%s any more: an option that '
                         'requires an argument and is the last argument is no longer rejected' % (MISSING_OPTARG[key], key[0], key[1]))
    cx.floor(sum(per.values()), 7, 'constructions of a missing-option-argument error')


# ---------------------------------------------------------------- R15: a rejected invocation carries no effect flag
BUILTIN_RESULT = 'yash_env::builtin::Result'
RETAIN_REDIRS = BUILTIN_RESULT + '::retain_redirs'
CLEAR_REDIRS = BUILTIN_RESULT + '::clear_redirs'
RETAIN_FLAG = 'should_retain_redirs'
# the functions of yash_env::builtin through which the flag of a Result can become true (anchored by R15)
FLAG_RAISERS = {RETAIN_REDIRS: 'sets it', BUILTIN_RESULT + '::max': 'takes the maximum of the flags of two results'}
_SYNTAX_PARSE = re.compile(r'^yash_builtin::.*::syntax::parse$')


def _flag_writers(F):
    """{fn: how} for every function of yash_env::builtin that stores something other than the constant `false` in the flag
    (field assignment, or construction of a Result whose flag operand is not the constant false)."""
    out = {}
    for fn, b in F.bodies.items():
        if not fn.startswith('yash_env::builtin::') or is_test(fn):
            continue
        for _, _, st, kind, _f in Q.field_writes(b, BUILTIN_RESULT, RETAIN_FLAG):
            o = st['rv'].get('o') if kind == 'assign' and st['rv']['k'] == 'use' else None
            if kind == 'assign' and o is not None and o.get('c') == 'false':
                continue
            out[b.root] = 'writes the field'
        for _, _, st in Q.find_aggregates(b, BUILTIN_RESULT):
            rv = st['rv']
            if RETAIN_FLAG not in rv.get('fields', []):
                out[b.root] = 'builds a Result without naming the flag'
                continue
            o = rv['ops'][rv['fields'].index(RETAIN_FLAG)]
            if o.get('c') != 'false':
                out[b.root] = 'builds a Result with a computed flag'
    return out


def _borrowed_local(body, du, o, depth=8):
    """The local whose value the reference operand `o` points to (follows `&mut x`, reborrows and named reference locals)."""
    cur = Q.operand_place(o)
    while cur is not None and depth:
        depth -= 1
        l = cur['l']
        if not (body.locals[l].get('ty') or '').startswith('&'):
            return l
        d = du.single_def(l)
        if d is None or d[1] == 't' or d[2]['k'] != 'assign':
            return l
        rv = d[2]['rv']
        if rv['k'] == 'ref':
            cur = rv['pl']
        elif rv['k'] == 'use' and Q.operand_place(rv['o']) is not None:
            cur = Q.operand_place(rv['o'])
        else:
            return l
    return cur['l'] if cur is not None else None


def _retained_flow(body, du, is_source, removed_edges=()):
    """Forward may-analysis over the CFG of `body` (minus `removed_edges`): which locals may hold (or point to, or wrap - a
    future, a Poll) a built-in Result whose retain-redirections flag is set. retain_redirs(&mut x) flags x, clear_redirs(&mut x)
    and a whole assignment from an unflagged value unflag it; a move/copy/borrow/aggregate carries the flag; a call carries it
    from an argument whose type mentions the Result to a destination whose type mentions it (Result::max, Clone, the await
    machinery, a helper that passes a result through); `is_source(t)` says that the call's value is flagged by itself.
    Returns ({block: state at entry - at the return for a returning block}, [(block, node)] where the return place becomes flagged)."""
    def has_result(ty):
        return BUILTIN_RESULT in (ty or '')

    def transfer(b, st, hits=None):
        st = set(st)
        for s in body.blocks[b]['s']:
            if s['k'] == 'dead':
                st.discard(s['l'])
                continue
            if s['k'] != 'assign':
                continue
            lhs = s['lhs']
            if any(p['l'] in st for p in Q.rvalue_places(s['rv'])):
                st.add(lhs['l'])
                if hits is not None and lhs['l'] == 0:
                    hits.append((b, s))
            elif not lhs.get('p'):
                st.discard(lhs['l'])
        t = body.blocks[b]['t']
        if t['k'] == 'call':
            d = t['dest']
            if Q.callee_is(t, [RETAIN_REDIRS]) and t['a']:
                st.add(_borrowed_local(body, du, t['a'][0]))
            elif Q.callee_is(t, [CLEAR_REDIRS]) and t['a']:
                st.discard(_borrowed_local(body, du, t['a'][0]))
            else:
                ats = t.get('at') or []
                carried = is_source(t) or (has_result(body.locals[d['l']].get('ty')) and any(
                    Q.operand_local(a) in st and has_result(ats[i] if i < len(ats) else body.locals[Q.operand_local(a)].get('ty'))
                    for i, a in enumerate(t['a'])))
                if carried:
                    st.add(d['l'])
                    if hits is not None and d['l'] == 0:
                        hits.append((b, t))
                elif not d.get('p'):
                    st.discard(d['l'])
        return st

    removed_edges = set(removed_edges)
    state = {0: frozenset()}
    work = [0]
    while work:
        b = work.pop()
        out = transfer(b, state[b])
        for v in body.succ(b):
            if (b, v) in removed_edges:
                continue
            old = state.get(v)
            new = frozenset(out) if old is None else old | out
            if new != old:
                state[v] = new
                work.append(v)
    hits = []
    for b in sorted(state):
        out = transfer(b, state[b], hits)
        if body.term(b)['k'] == 'return':
            state[b] = frozenset(out)          # (for a returning block: the state at the return)
    return state, hits


def _returns_flagged(body, state):
    return [b for b in body.return_blocks() if b in state and 0 in state[b]]


@RS.rule('C20.R15', 'K-PASS', 'a malformed invocation is rejected with no effect: in every built-in that can ask for its redirections to be kept '
         '(Result::retain_redirs - the exec built-in), the result returned when the argument parser answered Err does not carry the '
         'should_retain_redirs flag - it is not a result on which retain_redirs was called, nor Result::max / a copy / a pass-through of '
         'one (the converse of C09.R10, which wants the flag on every return after the arguments were accepted)')
def r15(cx):
    F = cx.F
    cx.require(BUILTIN_RESULT in F.adts and any(f['name'] == RETAIN_FLAG for f in F.adts[BUILTIN_RESULT]['variants'][0]['fields']),
               'yash_env::builtin::Result no longer has the field should_retain_redirs (anchor moved)')
    cx.require(RETAIN_REDIRS in F.bodies, 'yash_env::builtin::Result::retain_redirs does not exist any more (anchor moved)')
    writers = _flag_writers(F)
    cx.site('functions of yash_env::builtin that can raise the flag: %s' % sorted(writers))
    for fn, how in sorted(writers.items()):
        cx.require(fn in FLAG_RAISERS, '%s %s (should_retain_redirs) and is not modelled by C20.R15: add it to FLAG_RAISERS and to the flow '
                   'analysis' % (fn, how))
    cx.require(RETAIN_REDIRS in writers, 'Result::retain_redirs no longer sets should_retain_redirs (anchor moved)')

    def pool():
        return [b for fn, b in sorted(F.bodies.items()) if fn.startswith('yash_builtin::') and not is_test(fn)]

    # functions of yash-builtin whose returned result (or future of one) may be flagged: least fixpoint from the callers of retain_redirs
    retaining = set()
    flows = {}

    def is_source(t):
        nm = t['f'].get('def') or t['f'].get('decl')
        return nm in retaining

    def touches(b):
        return any(Q.callee_is(t, [RETAIN_REDIRS]) or is_source(t) for _, t in b.calls())

    changed = True
    while changed:
        changed = False
        for b0 in pool():
            if b0.root in retaining or not touches(b0):
                continue
            b = F.inlined(b0)
            st, _ = _retained_flow(b, Q.DefUse(b), is_source)
            if _returns_flagged(b, st) and F.main_body(b0.root) is b0:      # (a closure's value is not its parent's result)
                retaining.add(b0.root)
                changed = True
    cands = [b0 for b0 in pool() if touches(b0)]
    if not cands:
        cx.site('no function of yash-builtin calls Result::retain_redirs: no built-in result can carry the flag (C09.R10 reports that for exec)')
        return
    checked = 0
    for b0 in cands:
        body = F.inlined(b0)
        du = Q.DefUse(body)
        cx.fn(b0.fn)
        parsers = [(blk, t) for blk, t in body.calls()
                   if Q.callee_is(t, [PARSE_ARGUMENTS, _SYNTAX_PARSE]) and 'core::result::Result' in (body.locals[t['dest']['l']].get('ty') or '')]
        if not parsers and F.main_body(b0.root) is not b0:
            cx.site('%s: a closure that calls a flag-raising built-in and parses no arguments (registration / wrapper): its value is the '
                    'built-in\'s own result' % b0.fn)
            continue
        if not parsers:
            called = F.callers_of(lambda names, t: b0.root in names)
            called = [c for c in called if not is_test(c[0].fn)]
            cx.site('%s: touches the flag, parses no arguments itself; its result %s; direct callers: %s'
                    % (b0.fn, 'may be flagged' if b0.root in retaining else 'is never flagged', sorted({c[0].root for c in called}) or 'none'))
            cx.require(b0.root not in retaining or called, '%s returns a result flagged retain-redirections, parses no arguments itself and has '
                       'no direct caller: C20.R15 cannot tell which return is the rejection of a malformed invocation' % b0.fn)
            continue
        for pblk, pt in parsers:
            ok_edges, err_targets = set(), set()
            for u in sorted(body.live_blocks()):
                if body.term(u)['k'] != 'switch':
                    continue
                ec = Q.edge_condition(F, body, du, u)
                if ec is None or ec[0]['k'] != 'discr':
                    continue
                pl = ec[0]['pl']
                if pl['l'] != pt['dest']['l'] and Q.value_source(body, du, {'cp': {'l': pl['l']}}) is not pt:
                    continue
                for v, labs in ec[1].items():
                    if labs and all(l == ('variant', 'Ok') for l in labs):
                        ok_edges.add((u, v))
                    elif ('variant', 'Err') in labs:
                        err_targets.add(v)
            pname = (pt['f'].get('def') or pt['f'].get('decl')).split('::')[-1]
            cx.require(ok_edges and err_targets, '%s: the result of %s at %s is not taken apart by a match on Ok/Err: C20.R15 cannot find the '
                       'rejection path' % (b0.fn, pname, body.loc(pt)))
            st, hits = _retained_flow(body, du, is_source, removed_edges=ok_edges)
            bad = _returns_flagged(body, st)
            checked += 1
            cx.cellcount(1)
            raised = [body.loc(t) for _, t in body.calls() if Q.callee_is(t, [RETAIN_REDIRS]) or is_source(t)]
            cx.site('%s: flag raised at %s; executions in which %s (%s) answers Err reach %d return(s), %d of them with a result that may be '
                    'flagged' % (b0.fn, raised, pname, body.loc(pt), len([r for r in body.return_blocks() if r in st]), len(bad)))
            if not bad:
                continue
            node = hits[0][1] if hits else body.term(bad[0])
            path = body.shortest_path(sorted(err_targets)[0], {hits[0][0]} if hits else set(bad)) or []
            cx.violation(b0.root, 'rejected-invocation-keeps-redirections', 'when %s rejects the arguments, the built-in returns a result that '
                         'may carry should_retain_redirs (a result on which retain_redirs was called, or Result::max / a copy of one): the '
                         'simple-command executor then makes the redirections of the REJECTED command permanent - `exec --bogus 3>/out` in an '
                         'interactive shell, or `command exec -x >file` in a script, leaves the descriptor redirected although the invocation '
                         'was refused with a syntax error (a malformed invocation must have no effect)' % pname,
                         loc=body.loc(node), path=Q.render_path(body, path) if path else None)
    cx.require(checked >= 1, 'functions of yash-builtin raise the retain-redirections flag (%s) but none of them parses arguments: C20.R15 '
               'found no rejection path to examine' % sorted({b.fn for b in cands}))


# --- explanation addendum (generated catalogue in DESIGN.md reads RS.explanation)
RS.explanation += " Added later: ulimit's long names agree with the resource selected by the short letter (R1b); the cut of `--name=value` is measured in the text the user typed (R3b). the user manual's -x (--long) pairs are pairs of the option tables (R6). getopts keeps scanning a group after any letter without argument (R9). kill reads only unsigned decimals as signal numbers (R10)."
RS.explanation += " Every integer parse of operand text in the built-ins, job IDs, signal names, traps and option parsing sits behind a digit test, rejects the sign afterwards, or is a reviewed sign-tolerant site - `trap '' +2`, `kill -l +2`, `kill -s +9`, `%+1` are not numbers (R11, inventory of 19 sites, 12 reviewed entries). The name compared with `sh` at start-up is arg0 with the login hyphen removed (R12)."
RS.explanation += " The bespoke parsers that split option parsing between a short-option and a long-option function (typeset/export/readonly, set, the shell command line, and the generic parser itself) are evaluated on every argument text of length <= 3 over {-, +, other}: every argument beginning with a sign is claimed (consumed or rejected) by one of the two functions - except the documented lone `-`, `+` and `--` - and no other argument is, so a malformed option such as `-+x` cannot fall through to the operands (R13, 4 parsers x 2 functions x 40 texts). The `option-argument is missing` error of every option parser (generic parser, set, kill, getopts, command line: 7 sites) is decided by the end of the argument list alone, `None` of an unconditional next()/peek(), never by a fetch that inspects the text - `--rcfile -rc` is `--rcfile=-rc` (R14)."
RS.assumptions.append('C20.R13: what neither option function of a split parser claims is what its driver hands to the operands (the drivers '
                      'are listed in SPLIT_PARSERS; the option functions are found as the functions of the module the driver calls with the '
                      'peekable argument list); texts longer than 3 characters or with other characters behave like their 3-character '
                      'abstraction; a test of the text through a call without a model (bytes, char_indices, slicing) is not decided: exit 2')
RS.explanation += " A built-in that can ask for its redirections to be kept (Result::retain_redirs: exec) returns, on every execution in which its argument parser answered Err, a result that does not carry should_retain_redirs - decided by a flow analysis of the flag through moves, copies, Result::max and awaits on the CFG without the parser's Ok edge; the functions of yash_env::builtin that can raise the flag are anchored (R15, converse of C09.R10)."
