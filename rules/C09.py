"""C09 - redirections: applied in order, undone afterwards, no descriptor left behind.

Decided here (structural clauses, see DESIGN.md 4/C09); not decided: equality of the
descriptor table after arbitrary programs, the simulator's descriptor accounting."""
from engine import RuleSet
import re
import mirq as Q
import hirq as H
import pp

RS = RuleSet(
    'C09',
    explanation=(
        'Static path, ownership and table rules over the MIR/HIR of the redirection code: the saved copy of a '
        'redirected descriptor is closed or handed to the RedirGuard on EVERY exit of redir::perform (all error '
        'exits included); every descriptor opened for a redirection is returned as owned or closed on every path; '
        'restoration is structural (Drop for RedirGuard calls undo_redirs; who may make redirections permanent); '
        'the operator -> open-mode table equals the POSIX table; reserved (CLOEXEC) descriptors are refused before '
        'anything is saved; shell-internal descriptors are moved to >= MIN_INTERNAL_FD with CLOEXEC.'),
    not_decided='descriptor-table equality after arbitrary programs; simulated descriptor table semantics; '
                'allocation-failure sweeps (the rules decide WHERE a failure can strand a descriptor, on all paths)',
    trusted=['POSIX XCU 2.7 operator table transcribed in rules/C09.py'],
    assumptions=['path rules are path-insensitive except for the Err/None edges of switches on the resource itself',
                 'unwinding (panic) paths are not considered'],
)

PERFORM = 'yash_semantics::redir::perform'
OPEN_AND_MOVE = 'yash_semantics::redir::open_and_move'
CLOSE = ['*::Close::close', '*::Close::close']
DUP = ['*::Dup::dup']
OPEN = ['*::Open::open', '*::Open::open_tmpfile']


REDIR_MOD = 'yash_semantics::redir::'


def _redir_reach(F, sink_pats):
    """Functions (roots) of the redir module from which a call matching sink_pats is reachable through calls
    inside the module (a small call graph: the module's helpers may be split or merged by refactoring)."""
    roots = {b.root for b in F.bodies.values() if b.root.startswith(REDIR_MOD)}
    direct = set()
    calls = {}
    for r in roots:
        for lb in F.logical(r):
            for blk, t in lb.calls():
                if Q.callee_is(t, sink_pats):
                    direct.add(r)
                for n in Q.callee_names(t):
                    if n in roots and n != r:
                        calls.setdefault(r, set()).add(n)
    reach = set(direct)
    changed = True
    while changed:
        changed = False
        for r in roots:
            if r not in reach and calls.get(r, set()) & reach:
                reach.add(r)
                changed = True
    return reach


def _move_fn(F):
    """The function of the redir module that moves the opened descriptor onto the target (contains Dup::dup2)."""
    c = [b for b in F.bodies.values() if b.root.startswith(REDIR_MOD) and not b.root.startswith(REDIR_MOD + 'RedirGuard')
         and Q.find_calls(b, ['*::Dup::dup2'])]
    return c


def _await_through():
    return Q.PROPAGATING_CALLS + Q.AWAIT_CALLS


@RS.rule('C09.R1', 'K-RES', 'saved copy of the target fd is closed or stored in SavedFd on every exit of redir::perform')
def r1(cx):
    F = cx.F
    body = F.main_body(PERFORM)
    cx.fn(body.fn)
    acq = Q.find_calls(body, DUP)
    cx.require(len(acq) == 1, 'expected exactly one Dup::dup call in perform, found %d' % len(acq))
    b, t = acq[0]
    # the dup must be the save: MIN_INTERNAL_FD as lower bound
    cx.require(any(a.get('cdef') == 'yash_env::io::MIN_INTERNAL_FD' for a in t['a']),
               'Dup::dup in perform is not called with MIN_INTERNAL_FD')
    cx.site('%s: save = dup(target_fd, MIN_INTERNAL_FD, CLOEXEC) at %s' % (body.fn, body.loc(t)))

    def release(tainted):
        rel = Q.calls_with_tainted_arg(body, CLOSE, tainted)
        rel |= Q.aggregates_with_tainted_op(body, 'yash_semantics::redir::SavedFd', tainted)
        for blk in sorted(rel):
            cx.site('%s: release/hand-over of the saved copy in bb%d (%s)' % (body.fn, blk, body.loc(body.term(blk))))
        return rel
    paths, tainted, rel, absent = Q.resource_leak_paths(F, body, b, t['dest']['l'], release)
    cx.require(rel, 'no release or hand-over site of the saved descriptor found')
    exits = Q.leaking_exits(F, body, b, rel, absent)
    for ex in exits:
        cx.violation(PERFORM, 'exit:%s' % ex['label'],
                     'saved copy of the target descriptor (dup to >= MIN_INTERNAL_FD) is still open when perform '
                     'returns through %s' % ex['what'],
                     loc=ex['loc'], path=ex['path'])
    cx.sample({'function': body.fn, 'acquire': body.loc(t), 'release_blocks': sorted(rel),
               'exits_checked': len(body.return_blocks()), 'leaking_exits': [e['label'] for e in exits]})


@RS.rule('C09.R1c', 'K-TABLE', 'saving the target fd: Ok => saved, EBADF => nothing to save, any other errno fails the redirection')
def r1c(cx):
    F = cx.F
    h = F.hir_of(PERFORM)
    cx.fn(PERFORM)
    # the expression that initialises `save`
    lets = [x for x in H.walk_lets(h['body']) if x['pat'].get('k') == 'bind' and x['pat'].get('name') == 'save']
    cx.require(len(lets) == 1, 'let save = ... not found in perform')
    init = H.peel(lets[0]['init'])
    loc = '%s:%s' % (h['file'], lets[0].get('line'))
    cx.site('perform: let save = <%s> at %s' % (init.get('k'), loc))
    is_dup = lambda n: n.get('k') in ('call', 'mcall') and H.callee_matches(n, ['*::Dup::dup'])
    if init.get('k') != 'match' or not is_dup(H.peel(init['scrut'])):
        cx.violation(PERFORM, 'save-not-a-match-on-dup', 'the saved descriptor must be decided by matching on the result of '
                     'dup(target_fd, MIN_INTERNAL_FD, CLOEXEC): a failure other than EBADF (e.g. EMFILE) must fail the '
                     'redirection, not be treated as "target was closed" (the command would then run with the target replaced '
                     'and restoration would close it)', loc=loc)
        return
    OK, ERR = 'core::result::Result::Ok', 'core::result::Result::Err'
    EBADF = 'yash_env::system::errno::Errno::EBADF'
    cases = {
        'Ok(fd)': ('variant', OK, [('any',)]),
        'Err(EBADF)': ('variant', ERR, [('variant', EBADF, [])]),
        'Err(other)': ('variant', ERR, [('variant', 'yash_env::system::errno::Errno::EMFILE', [])]),
    }
    got = {}
    for name, val in cases.items():
        i, arm = H.first_matching_arm(init, val)
        cx.require(i is not None, 'arm for %s not decidable: %s' % (name, arm))
        body = H.peel(arm['body'])
        if body.get('k') == 'call' and body.get('ctor') and H.short(body['ctor']['def']) == 'Some':
            got[name] = 'Some'
        elif body.get('k') == 'path' and H.short(body.get('def') or '') == 'None':
            got[name] = 'None'
        elif any(x.get('k') == 'ret' for x in H.walk(body)):
            got[name] = 'return Err'
        else:
            got[name] = body.get('k')
        cx.cellcount(1)
    cx.sample({'save table': got})
    want = {'Ok(fd)': 'Some', 'Err(EBADF)': 'None', 'Err(other)': 'return Err'}
    for k in want:
        if got[k] != want[k]:
            cx.violation(PERFORM, 'save-table:%s' % k, 'on %s the save step must yield %s, found %s' % (k, want[k], got[k]), loc=loc)


@RS.rule('C09.R1b', 'K-ORDER', 'RedirGuard::perform_redir records the SavedFd returned by perform before returning Ok')
def r1b(cx):
    F = cx.F
    body = F.main_body('yash_semantics::redir::RedirGuard::<\'e, S>::perform_redir')
    cx.fn(body.fn)
    pushes = Q.find_calls(body, ['*::Vec::<T, A>::push', 'alloc::vec::Vec::<T, A>::push'])
    cx.require(len(pushes) == 1, 'expected one saved_fds.push in perform_redir, found %d' % len(pushes))
    pb, pt = pushes[0]
    cx.site('%s: saved_fds.push at %s' % (body.fn, body.loc(pt)))
    # every Return reached through an Ok aggregate passes the push
    oks = [blk for blk, j, s in Q.find_aggregates(body, 'core::result::Result', 'Ok')]
    cx.require(oks, 'no Ok(..) construction in perform_redir')
    for ob in oks:
        cx.site('%s: Ok(..) in bb%d' % (body.fn, ob))
        if not body.dominates(pb, ob):
            cx.violation(body.root, 'ok-without-push', 'perform_redir can return Ok without recording the SavedFd',
                         loc=body.loc(body.term(ob)))


def _owned_or_closed(cx, fn, acquire_pats, n_expected):
    """Every descriptor produced by `acquire_pats` in fn is closed, wrapped into
    FdSpec::Owned, or returned as Ok(fd) on every path."""
    F = cx.F
    body = F.main_body(fn)
    cx.fn(body.fn)
    acq = Q.find_calls(body, acquire_pats)
    cx.require(len(acq) >= n_expected, '%s: expected %d acquire sites, found %d' % (fn, n_expected, len(acq)))
    for b, t in acq:
        cx.site('%s: %s at %s' % (body.fn, pp.callee(t), body.loc(t)))

        def release(tainted):
            rel = Q.calls_with_tainted_arg(body, CLOSE, tainted)
            rel |= Q.aggregates_with_tainted_op(body, 'yash_semantics::redir::FdSpec', tainted, 'Owned')
            rel |= Q.aggregates_with_tainted_op(body, 'core::result::Result', tainted, 'Ok')
            return rel
        paths, tainted, rel, absent = Q.resource_leak_paths(F, body, b, t['dest']['l'], release,
                                                            through_calls=_await_through())
        cx.require(rel, '%s: no release site found' % fn)
        for ex in Q.leaking_exits(F, body, b, rel, absent):
            cx.violation(fn, 'acquire:%s|exit:%s' % (pp.callee(t).split('::')[-1], ex['label']),
                         'descriptor opened by %s is neither closed nor returned as owned on the exit through %s'
                         % (pp.callee(t), ex['what']), loc=ex['loc'], path=ex['path'])
        cx.sample({'function': body.fn, 'acquire': body.loc(t), 'release_blocks': sorted(rel)})


@RS.rule('C09.R2', 'K-RES', 'descriptors opened for a redirection are returned as owned or closed on every path')
def r2(cx):
    _owned_or_closed(cx, 'yash_semantics::redir::open_file', OPEN, 1)
    _owned_or_closed(cx, 'yash_semantics::redir::open_file_noclobber', OPEN, 2)
    _owned_or_closed(cx, 'yash_semantics::redir::here_doc::open_fd', OPEN, 1)


@RS.rule('C09.R2b', 'K-ORDER', 'the opened descriptor is closed after dup2 on both outcomes of dup2')
def r2b(cx):
    F = cx.F
    movers = _move_fn(F)
    cx.require(len(movers) == 1, 'expected exactly one function of the redir module (outside RedirGuard) that dup2s onto the target, '
               'found %s' % [b.fn for b in movers])
    body = movers[0]
    cx.fn(body.fn)
    dup2 = Q.find_calls(body, ['*::Dup::dup2'])
    cx.require(len(dup2) == 1, 'expected one dup2 in %s' % body.fn)
    db, dt = dup2[0]
    closes = Q.find_calls(body, ['yash_semantics::redir::FdSpec::close'])
    cx.require(closes, 'FdSpec::close not called in %s' % body.fn)
    cx.site('%s: dup2 at %s; fd_spec.close at %s' % (body.fn, body.loc(dt), body.loc(closes[0][1])))
    # every path from dup2 to a Return passes fd_spec.close
    p = Q.must_pass(body, body.succ(db), {b for b, _ in closes})
    if p:
        cx.violation(body.root, 'dup2-without-close', 'a path from dup2 to return does not close the opened descriptor',
                     loc=body.loc(dt), path=Q.render_path(body, p))


@RS.rule('C09.R4', 'K-TYPE+K-CALLERS', 'restoration is structural: Drop for RedirGuard undoes; permanence only via exec')
def r4(cx):
    F = cx.F
    drops = [i for i in F.impls if i.get('trait_def') == 'core::ops::drop::Drop'
             and i.get('self_adt') == 'yash_semantics::redir::RedirGuard']
    cx.require(len(drops) == 1, 'impl Drop for RedirGuard not found')
    dfn = drops[0]['items'][0]['def']
    body = F.body(dfn)
    cx.fn(dfn)
    cx.site('impl Drop for RedirGuard at %s:%d' % (drops[0]['file'], drops[0]['line']))
    undo = Q.find_calls(body, ['*::undo_redirs'])
    if not undo or not all(body.dominates(b, r) or b == r for b, _ in undo for r in body.return_blocks()):
        cx.violation(dfn, 'drop-without-undo', 'RedirGuard::drop does not call undo_redirs on every path',
                     loc='%s:%d' % (drops[0]['file'], drops[0]['line']))
    # undo_redirs: dup2(save, original) then close(save), or close(original)
    ub = F.body("yash_semantics::redir::RedirGuard::<'e, S>::undo_redirs")
    cx.fn(ub.fn)
    d2 = Q.find_calls(ub, ['*::Dup::dup2'])
    cl = Q.find_calls(ub, CLOSE)
    cx.site('%s: %d dup2, %d close' % (ub.fn, len(d2), len(cl)))
    if len(d2) < 1 or len(cl) < 2:
        cx.violation(ub.fn, 'undo-shape', 'undo_redirs must dup2 the saved copy back and close it, or close the '
                     'target when nothing was saved (found %d dup2, %d close)' % (len(d2), len(cl)), loc=ub.loc(ub.d))
    else:
        # close(save) after dup2(save, original)
        if not any(ub.dominates(d2[0][0], c) for c, _ in cl):
            cx.violation(ub.fn, 'undo-order', 'no close is dominated by the dup2 that restores the descriptor',
                         loc=ub.loc(d2[0][1]))
    rev = Q.find_calls(ub, ['*::Iterator::rev', 'core::iter::traits::iterator::Iterator::rev'])
    if not rev:
        cx.violation(ub.fn, 'undo-not-reversed', 'undo_redirs must restore in reverse order of application',
                     loc=ub.loc(ub.d))
    # nobody forgets a guard
    forget = F.callers_of(lambda names, t: any(n in ('core::mem::forget', 'core::mem::forget') or
                                               n.endswith('ManuallyDrop::<T>::new') for n in names)
                          and 'RedirGuard' in ' '.join(t.get('at', [])))
    cx.site('mem::forget/ManuallyDrop::new on RedirGuard: %d sites' % len(forget))
    for b, i, t in forget:
        cx.violation(b.root, 'forget-guard', 'a RedirGuard is leaked with mem::forget/ManuallyDrop', loc=b.loc(t))
    # who may make redirections permanent
    callers = F.callers_of(lambda names, t: any(n.endswith('::preserve_redirs') for n in names))
    allowed = {'yash_semantics::command::simple_command::builtin::execute_builtin'}
    cx.floor(len(callers), 1, 'preserve_redirs call sites')
    for b, i, t in callers:
        cx.site('%s calls preserve_redirs at %s' % (b.root, b.loc(t)))
        if b.root not in allowed:
            cx.violation(b.root, 'caller:preserve_redirs', 'preserve_redirs may only be called by execute_builtin',
                         loc=b.loc(t))
            continue
        du = Q.DefUse(b)
        conds = Q.dominating_conditions(F, b, du, i)
        if not any(Q.cond_is_call(org, ['*::should_retain_redirs']) and lab == ('bool', True) for org, lab, e in conds):
            cx.violation(b.root, 'unguarded:preserve_redirs', 'preserve_redirs is not guarded by '
                         'result.should_retain_redirs()', loc=b.loc(t))
    ret = F.callers_of(lambda names, t: any(n.endswith('builtin::Result::retain_redirs') for n in names))
    cx.floor(len(ret), 1, 'Result::retain_redirs call sites')
    for b, i, t in ret:
        cx.site('%s calls Result::retain_redirs at %s' % (b.root, b.loc(t)))
        if not b.root.startswith('yash_builtin::exec::'):
            cx.violation(b.root, 'caller:retain_redirs', 'only the exec built-in may ask for its redirections to persist',
                         loc=b.loc(t))


@RS.rule('C09.R7', 'K-GUARD', 'reserved (CLOEXEC) descriptors are refused before anything is saved or copied')
def r7(cx):
    F = cx.F
    body = F.main_body(PERFORM)
    cx.fn(body.fn)
    du = Q.DefUse(body)
    # the functions that replace the target descriptor run only from perform (directly or through each other), after the guard
    movers = {b.root for b in _move_fn(F)}
    touching = _redir_reach(F, ['*::Dup::dup2']) - {PERFORM}
    touching = {r for r in touching if not r.startswith(REDIR_MOD + 'RedirGuard')}
    cx.require(movers, 'no function of the redir module dup2s onto the target')
    for r in sorted(touching):
        for b2, i2, t2 in F.callers_of(lambda names, t: r in names):
            cx.site('%s calls %s at %s' % (b2.root, r, b2.loc(t2)))
            if b2.root != PERFORM and b2.root not in touching:
                cx.violation(b2.root, 'caller:%s' % r.split('::')[-1], '%s (which replaces the target descriptor) may only be reached from '
                             'perform, after the reserved-descriptor check' % r, loc=b2.loc(t2))
    for b, t in Q.find_calls(body, DUP + sorted(touching)):
        conds = Q.dominating_conditions(F, body, du, b)
        cx.site('%s: %s at %s' % (body.fn, pp.callee(t), body.loc(t)))
        if not any(Q.cond_is_call(org, ['yash_semantics::redir::is_cloexec']) and lab == ('bool', False)
                   for org, lab, e in conds):
            cx.violation(PERFORM, 'unguarded:%s' % pp.callee(t).split('::')[-1],
                         'descriptor operation not dominated by the is_cloexec(target_fd) == false edge',
                         loc=body.loc(t))
    cb = F.body('yash_semantics::redir::copy_fd')
    cx.fn(cb.fn)
    du = Q.DefUse(cb)
    borrowed = Q.find_aggregates(cb, 'yash_semantics::redir::FdSpec', 'Borrowed')
    cx.require(borrowed, 'FdSpec::Borrowed not constructed in copy_fd')
    for b, j, s in borrowed:
        cx.site('%s: FdSpec::Borrowed at %s' % (cb.fn, cb.loc(s)))
        conds = Q.dominating_conditions(F, cb, du, b)
        if not any(Q.cond_is_call(org, ['yash_semantics::redir::is_cloexec']) and lab == ('bool', False)
                   for org, lab, e in conds):
            cx.violation(cb.fn, 'unguarded:Borrowed', 'copy_fd hands out a descriptor without the is_cloexec check',
                         loc=cb.loc(s))
        if not any(Q.cond_is_call(org, ['yash_semantics::redir::copy_fd::is_fd_valid']) and lab == ('bool', True)
                   for org, lab, e in conds):
            cx.violation(cb.fn, 'unchecked-access:Borrowed', 'copy_fd hands out a descriptor without checking its '
                         'access mode', loc=cb.loc(s))


PIPELINE = 'yash_semantics::command::pipeline::'


@RS.rule('C09.R3', 'K-PASS', 'pipeline set-up failure: no pipe descriptor stays open in the shell on the failure exits')
def r3(cx):
    F = cx.F
    # (a) PipeSet::shift: the failure of pipe() must not return with read_previous still open
    sb = F.body(PIPELINE + 'PipeSet::shift')
    cx.fn(sb.fn)
    du = Q.DefUse(sb)
    pipes = Q.find_calls(sb, ['*::Pipe::pipe'])
    cx.require(len(pipes) == 1, 'expected one Pipe::pipe call in PipeSet::shift')
    pb, pt = pipes[0]
    cx.site('%s: pipe() at %s' % (sb.fn, sb.loc(pt)))
    closers = {b for b, t in Q.find_calls(sb, [PIPELINE + 'PipeSet::close_all', '*::Close::close'])}
    # blocks that close something AFTER the pipe() call (closes before it concern the old descriptors)
    after = {b for b in closers if sb.dominates(pb, b)}
    # failure exits: return-writing blocks reachable from pipe() that produce an Err
    tainted = Q.forward_taint(sb, {pt['dest']['l']}, through_calls=Q.PROPAGATING_CALLS)
    err_exits = []
    for w in Q.return_writers(sb):
        if not sb.dominates(pb, w):
            continue
        lab, what = Q.exit_label(sb, du, w)
        if lab.startswith('Ok'):
            continue
        err_exits.append((w, lab, what))
    cx.require(err_exits, 'no failure exit after pipe() in PipeSet::shift')
    for w, lab, what in err_exits:
        cx.site('%s: failure exit %s at %s' % (sb.fn, lab, sb.loc(sb.term(w))))
        p = sb.shortest_path(pb, {w}, removed=after)
        if p is not None:
            cx.violation(sb.fn, 'exit:%s' % lab, 'when pipe() fails, shift returns through %s with the read end of the previous pipe '
                         '(just stored in read_previous) still open' % what, loc=sb.loc(sb.term(w)), path=Q.render_path(sb, p))
    # (b) execute_multi_command_pipeline: after a child could not be started the parent closes its pipe ends
    eb = F.main_body(PIPELINE + 'execute_multi_command_pipeline')
    cx.fn(eb.fn)
    pid_calls = Q.find_calls(eb, [PIPELINE + 'pid_or_fail'])
    cx.require(len(pid_calls) == 1, 'pid_or_fail call not found in execute_multi_command_pipeline')
    closing = {b for b, t in Q.find_calls(eb, [PIPELINE + 'shift_or_fail', PIPELINE + 'PipeSet::shift', PIPELINE + 'PipeSet::close_all'])}
    cb, ct = pid_calls[0]
    cx.site('%s: pid_or_fail at %s; closing calls in blocks %s' % (eb.fn, eb.loc(ct), sorted(closing)))
    p = Q.must_pass(eb, eb.succ(cb), closing)
    if p:
        cx.violation(eb.root, 'start-failure-exit', 'when a pipeline member cannot be started, the function returns without closing the pipe '
                     'descriptors it still holds (read end of the previous pipe, both ends of the next one)',
                     loc=eb.loc(ct), path=Q.render_path(eb, p))
    # (c) the normal path ends with shift_or_fail(.., false) before the wait loop
    waits = Q.find_calls(eb, ['*::wait_for_subshell_to_finish', '*::wait_for_subshell'])
    cx.require(waits, 'no wait in execute_multi_command_pipeline')
    du2 = Q.DefUse(eb)
    finals = [(b, t) for b, t in Q.find_calls(eb, [PIPELINE + 'shift_or_fail']) if Q.arg_names(eb, du2, t)[-1] == 'const false']
    cx.site('%s: shift_or_fail(.., false) sites: %d; waits: %d' % (eb.fn, len(finals), len(waits)))
    for b, t in Q.check_dominated(eb, finals, waits):
        cx.violation(eb.root, 'wait-before-final-shift', 'the shell waits for the pipeline while still holding pipe descriptors: '
                     'the last reader never sees EOF', loc=eb.loc(t))


OPEN_TABLE = {
    # RedirOp variant -> (function, access, flags) ; POSIX XCU 2.7
    'FileIn': ('open_file', 'ReadOnly', set()),
    'FileOut': ('open_file', 'WriteOnly', {'Create', 'Truncate'}),
    'FileClobber': ('open_file', 'WriteOnly', {'Create', 'Truncate'}),
    'FileAppend': ('open_file', 'WriteOnly', {'Create', 'Append'}),
    'FileInOut': ('open_file', 'ReadWrite', {'Create'}),
    'FdIn': ('copy_fd', 'ReadOnly', None),
    'FdOut': ('copy_fd', 'WriteOnly', None),
    'Pipe': ('Err', None, None),
    'String': ('Err', None, None),
}


def _names_in(node, prefix):
    out = set()
    for x in H.walk(node):
        d = x.get('def') if x.get('k') == 'path' else None
        if d and d.startswith(prefix):
            out.add(d.split('::')[-1])
    return out


@RS.rule('C09.R6', 'K-TABLE', 'redirection operator -> open mode table equals the POSIX table; noclobber arm guarded by Clobber == Off')
def r6(cx):
    F = cx.F
    fn = 'yash_semantics::redir::open_normal'
    h = F.hir_of(fn)
    cx.fn(fn)
    ms = [m for m in H.matches_in(h['body']) if (m.get('sty') or '').endswith('RedirOp')]
    cx.require(len(ms) == 1, 'match over RedirOp not found in open_normal')
    m = ms[0]
    loc = '%s:%d' % (h['file'], h['line'])
    adt = 'yash_syntax::syntax::RedirOp'
    guarded_seen = False
    for v in H.enum_variants(F, adt):
        name = v.split('::')[-1]
        # first unguarded arm for this variant
        arm = None
        for a in m['arms']:
            r = H.pat_matches_value(a['pat'], ('variant', v, None))
            if r is True:
                if a.get('guard'):
                    if name != 'FileOut':
                        cx.violation(fn, 'guarded:%s' % name, 'only `>` may have a guarded (noclobber) arm', loc=loc)
                    else:
                        guarded_seen = True
                        g = a['guard']
                        consts = _names_in(g, 'yash_env::option::')
                        callee = [H.short(c.get('def') or '') for c in H.calls(a['body'])]
                        cx.site('open_normal: FileOut if %s => %s' % (sorted(consts), callee))
                        if not ({'Clobber', 'Off'} <= consts) or 'open_file_noclobber' not in callee:
                            cx.violation(fn, 'noclobber-arm', '`>` under noclobber must be guarded by Clobber == Off and call open_file_noclobber',
                                         loc=loc)
                    continue
                arm = a
                break
        cx.cellcount(1)
        if name not in OPEN_TABLE:
            cx.violation(fn, 'unclassified:%s' % name, 'redirection operator %s is not in the POSIX reference table' % name, loc=loc)
            continue
        want_fn, want_access, want_flags = OPEN_TABLE[name]
        if arm is None:
            cx.violation(fn, 'no-arm:%s' % name, 'no arm handles %s' % name, loc=loc)
            continue
        body = arm['body']
        callee = [H.short(c.get('def') or '') for c in H.calls(body)]
        access = _names_in(body, 'yash_env::system::file_system::OfdAccess::') | _names_in(body, 'yash_env::system::OfdAccess::')
        flags = _names_in(body, 'yash_env::system::file_system::OpenFlag::') | _names_in(body, 'yash_env::system::OpenFlag::')
        cx.sample({'op': name, 'calls': callee[:3], 'access': sorted(access), 'flags': sorted(flags)})
        if want_fn == 'Err':
            if any(c in ('open_file', 'copy_fd', 'open_file_noclobber') for c in callee):
                cx.violation(fn, 'cell:%s' % name, '%s must be rejected as unsupported' % name, loc=loc)
            continue
        if want_fn not in callee:
            cx.violation(fn, 'cell:%s' % name, '%s must be handled by %s (found calls %s)' % (name, want_fn, callee), loc=loc)
            continue
        if access != {want_access}:
            cx.violation(fn, 'access:%s' % name, '%s must open %s, found %s' % (name, want_access, sorted(access)), loc=loc)
        if want_flags is not None and flags != want_flags:
            cx.violation(fn, 'flags:%s' % name, '%s must open with flags %s, found %s' % (name, sorted(want_flags), sorted(flags)), loc=loc)
    if not guarded_seen:
        cx.violation(fn, 'noclobber-arm-missing', 'no noclobber arm for `>`', loc=loc)
    # open_file_noclobber: first open is Create|Exclusive; an existing regular file is refused
    nb = F.main_body('yash_semantics::redir::open_file_noclobber')
    cx.fn(nb.fn)
    nh = F.hir_of('yash_semantics::redir::open_file_noclobber')
    opens = [c for c in H.walk(nh['body']) if c.get('k') == 'mcall' and c.get('name') == 'open']
    cx.require(len(opens) == 2, 'expected two open calls in open_file_noclobber')
    first_flags = H.peel(opens[0]['a'][2])
    fdef = first_flags.get('def') if first_flags.get('k') == 'path' else None
    flagset = set()
    if fdef and fdef in F.hir:
        flagset = _names_in(F.hir[fdef]['body'], 'yash_env::system::file_system::OpenFlag::')
    else:
        flagset = _names_in(opens[0], 'yash_env::system::file_system::OpenFlag::')
    cx.site('open_file_noclobber: first open flags %s' % sorted(flagset))
    if flagset != {'Create', 'Exclusive'}:
        cx.violation(nb.root, 'excl-open', 'the noclobber open must first try Create|Exclusive (found %s)' % sorted(flagset),
                     loc='%s:%s' % (nh['file'], opens[0]['line']))
    du = Q.DefUse(nb)
    owned = Q.find_aggregates(nb, 'yash_semantics::redir::FdSpec', 'Owned')
    reg = [x for lb in F.logical('yash_semantics::redir::open_file_noclobber') for x in Q.find_calls(lb, [re_is_regular()])]
    cx.site('open_file_noclobber: is_regular_file checks: %d' % len(reg))
    if not reg:
        cx.violation(nb.root, 'no-regular-check', 'an existing file opened without O_EXCL is not tested for being a regular file',
                     loc=nb.loc(nb.d))


def re_is_regular():
    import re
    return re.compile(r'::is_regular_file$')


# every descriptor-creating call outside yash_env::system, classified (root function, callee) -> class
FD_SOURCES = {
    ('yash_semantics::redir::open_file', 'open'): 'redirection',
    ('yash_semantics::redir::open_file_noclobber', 'open'): 'redirection',
    ('yash_semantics::redir::here_doc::open_fd', 'open_tmpfile'): 'redirection',
    ('yash_semantics::redir::perform', 'dup'): 'save',
    ('yash_semantics::command::item::nullify_stdin', 'open'): 'child-stdin',
    ('yash_semantics::expansion::initial::command_subst::expand', 'pipe'): 'pipe',
    ('yash_semantics::command::pipeline::PipeSet::shift', 'pipe'): 'pipe',
    ('yash_semantics::command::pipeline::PipeSet::move_to_stdin_stdout', 'dup'): 'child-stdout-shuffle',
    ("yash_semantics::expansion::glob::SearchEnv::<'_, S>::search_dir", 'opendir'): 'directory-handle',
    ('yash_builtin::source::semantics::open_file', 'open'): 'internal',
    ('yash_cli::startup::init_file::run_init_file::{closure#0}::open_fd', 'open'): 'internal',
    ('yash_cli::startup::input::prepare_input', 'open'): 'internal',
    ('yash_env::Env::<S>::get_tty', 'open'): 'internal',
    ('yash_env::io::move_fd_internal', 'dup'): 'move-internal',
}
FD_CREATORS = ['*::Open::open', '*::Open::open_tmpfile', '*::Pipe::pipe', '*::Dup::dup', '*::Open::fdopendir', '*::Open::opendir']


@RS.rule('C09.R8', 'K-CALLERS', 'descriptors the shell opens for itself are opened CLOEXEC and moved to >= MIN_INTERNAL_FD; every descriptor source is classified')
def r8(cx):
    F = cx.F
    sites = [(b, i, t) for b, i, t in F.callers_of(lambda names, t: Q.callee_is(t, FD_CREATORS))
             if not (b.crate == 'yash_env' and '::system::' in b.fn)]
    cx.floor(len(sites), 14, 'descriptor-creating call sites outside the system layer')
    for b, i, t in sites:
        short = pp.callee(t).split(' [')[0].split('::')[-1]
        cls = FD_SOURCES.get((b.root, short))
        cx.site('%s: %s -> %s' % (b.root, short, cls))
        cx.fn(b.root)
        if cls is None:
            cx.violation(b.root, 'unclassified-fd-source:%s' % short, 'a new descriptor source (%s) that is not classified as redirection '
                         'target / pipe end / shell-internal: shell-internal descriptors must be CLOEXEC and >= 10' % short, loc=b.loc(t))
            continue
        if cls == 'internal':
            # (a) opened with CloseOnExec
            h = F.hir.get(b.root) or F.hir.get(b.root.split('::{closure')[0])
            hroot = b.root
            while h is None and '::' in hroot:
                hroot = hroot.rsplit('::', 1)[0]
                h = F.hir.get(hroot)
            opens = [c for c in H.walk(h['body']) if c.get('k') == 'mcall' and c.get('name') == 'open'] if h is not None else []
            has_cloexec = bool(opens) and all('CloseOnExec' in _names_in(c, 'yash_env::system::file_system::OpenFlag::') for c in opens)
            if not has_cloexec and len(t['a']) >= 4:
                # the flags may be computed into a named local first: backward slice of the flags operand on the MIR
                want = {(Q.operand_place(t['a'][3]) or {}).get('l')} - {None}
                seen = set()
                while want:
                    l = want.pop()
                    if l in seen:
                        continue
                    seen.add(l)
                    for blk2, j2, st2 in b.stmts():
                        if st2['k'] == 'assign' and st2['lhs']['l'] == l:
                            rv2 = st2['rv']
                            if rv2['k'] == 'agg' and rv2.get('adt', '').endswith('file_system::OpenFlag') and rv2.get('variant') == 'CloseOnExec':
                                has_cloexec = True
                            want |= {p2['l'] for p2 in Q.rvalue_places(rv2)}
                    for blk2, t2 in b.calls():
                        if t2['dest']['l'] == l:
                            want |= {(Q.operand_place(a2) or {}).get('l') for a2 in t2['a']} - {None}
            if not has_cloexec:
                cx.violation(b.root, 'internal-open-without-cloexec', 'a shell-internal descriptor is opened without OpenFlag::CloseOnExec '
                             '(it would be inherited by every executed program)', loc=b.loc(t))
            # (b) moved to >= MIN_INTERNAL_FD by the same function
            moved = any(Q.find_calls(lb, ['yash_env::io::move_fd_internal']) for lb in F.logical(b.root))
            if not moved:
                cx.violation(b.root, 'internal-open-not-moved', 'a shell-internal descriptor is not moved to >= MIN_INTERNAL_FD '
                             '(it can collide with descriptors 0-9 that belong to the user)', loc=b.loc(t))
        if cls in ('save', 'move-internal'):
            du = Q.DefUse(b)
            names = Q.arg_names(b, du, t)
            flag = du.origin(t['a'][3]) if len(t['a']) > 3 else None
            ok_min = 'const yash_env::io::MIN_INTERNAL_FD' in names
            ok_flag = False
            if flag and flag['k'] == 'call':
                src = du.origin(flag['t']['a'][0])
                ok_flag = src['k'] == 'agg' and src['rv'].get('variant') == 'CloseOnExec'
            if not ok_min or not ok_flag:
                cx.violation(b.root, 'internal-dup-params', 'the internal duplicate must be made at >= MIN_INTERNAL_FD with CloseOnExec '
                             '(min ok: %s, cloexec ok: %s)' % (ok_min, ok_flag), loc=b.loc(t))
    # move_fd_internal closes the original on every path after the dup
    mb = F.body('yash_env::io::move_fd_internal')
    cx.fn(mb.fn)
    dups = Q.find_calls(mb, ['*::Dup::dup'])
    closes = Q.find_calls(mb, CLOSE)
    cx.require(len(dups) == 1, 'dup not found in move_fd_internal')
    p = Q.must_pass(mb, mb.succ(dups[0][0]), {b for b, _ in closes})
    cx.site('move_fd_internal: dup at %s, %d close' % (mb.loc(dups[0][1]), len(closes)))
    if p:
        cx.violation(mb.fn, 'original-not-closed', 'move_fd_internal can return without closing the original descriptor',
                     loc=mb.loc(dups[0][1]), path=Q.render_path(mb, p))
    du = Q.DefUse(mb)
    # the early return is guarded by from >= MIN_INTERNAL_FD
    oks = [(b, j, s) for b, j, s in Q.find_aggregates(mb, 'core::result::Result', 'Ok') if s['lhs']['l'] == 0]
    for b, j, s in oks:
        conds = Q.dominating_conditions(F, mb, du, b)
        if not any(org['k'] == 'call' and Q.callee_is(org['t'], [Q.re.compile(r'PartialOrd.*::ge$')]) and lab == ('bool', True) for org, lab, e in conds):
            cx.violation(mb.fn, 'early-return-guard', 'move_fd_internal returns the original descriptor without establishing from >= MIN_INTERNAL_FD',
                         loc=mb.loc(s))


GUARD_USERS = {
    # function that creates a RedirGuard -> callee(s) that run the command inside it (None: nothing to run)
    'yash_semantics::command::compound_command::<impl yash_semantics::command::Command<S> for yash_syntax::syntax::FullCompoundCommand>::execute':
        [Q.re.compile(r'for yash_syntax::syntax::CompoundCommand>::execute$')],
    'yash_semantics::command::simple_command::builtin::execute_builtin': ['<indirect>'],
    'yash_semantics::command::simple_command::function::execute_function':
        ['yash_semantics::command::simple_command::function::execute_function_body'],
    'yash_semantics::command::simple_command::external::execute_external_utility':
        ['yash_semantics::command::simple_command::external::start_external_utility_in_subshell_and_wait'],
    'yash_semantics::command::simple_command::absent::execute_absent_target': None,
}
PERFORM_REDIRS = ["yash_semantics::redir::RedirGuard::<'e, S>::perform_redirs", 'yash_semantics::command::compound_command::perform_redirs']


@RS.rule('C09.R5', 'K-SIBLING', 'every command kind creates the guard, applies the redirections through it, and runs the command while the guard is alive')
def r5(cx):
    F = cx.F
    news = F.callers_of(lambda names, t: "yash_semantics::redir::RedirGuard::<'e, S>::new" in names)
    cx.floor(len(news), 5, 'RedirGuard::new call sites')
    seen = set()
    for b, nb, nt in news:
        cx.fn(b.root)
        seen.add(b.root)
        if b.root not in GUARD_USERS:
            cx.violation(b.root, 'unreviewed-guard-user', 'a new user of RedirGuard that is not in the reviewed table of command kinds',
                         loc=b.loc(nt))
            continue
        du = Q.DefUse(b)
        perf = Q.find_calls(b, PERFORM_REDIRS)
        cx.site('%s: guard at %s, perform_redirs at %s' % (b.root, b.loc(nt), [b.loc(t) for _, t in perf]))
        if not perf:
            cx.violation(b.root, 'no-perform-redirs', 'the command kind creates a RedirGuard but never applies the redirections', loc=b.loc(nt))
            continue
        for pb, pt in Q.check_dominated(b, [(nb, nt)], perf):
            cx.violation(b.root, 'redirs-outside-guard', 'redirections are applied without the guard that undoes them', loc=b.loc(pt))
        runs = GUARD_USERS[b.root]
        if runs is None:
            continue
        if runs == ['<indirect>']:
            run_sites = [(i, t) for i, t in b.calls() if 'indirect' in t['f']]
        else:
            run_sites = Q.find_calls(b, runs)
        if not run_sites:
            cx.violation(b.root, 'command-not-run', 'the call that runs the command was not found in this executor', loc=b.loc(nt))
            continue
        guard_drops = [i for i in b.live_blocks() if b.term(i)['k'] == 'drop' and b.term(i)['ty'].startswith('yash_semantics::redir::RedirGuard<')]
        undo = [i for i, t in Q.find_calls(b, ["yash_semantics::redir::RedirGuard::<'e, S>::undo_redirs",
                                                "yash_semantics::redir::RedirGuard::<'e, S>::preserve_redirs"])]
        for rb, rt in run_sites:
            cx.site('%s: runs the command at %s' % (b.root, b.loc(rt)))
            if not any(p != rb and b.dominates(p, rb) for p, _ in perf):
                cx.violation(b.root, 'run-before-redirs', 'the command runs on a path that has not applied its redirections', loc=b.loc(rt))
            early = [d for d in guard_drops + undo if d != rb and b.dominates(d, rb)]
            if early:
                cx.violation(b.root, 'guard-dropped-before-run', 'the redirections are undone (guard dropped) before the command runs',
                             loc=b.loc(rt))
            # the environment handed to the command derives from the guard (through deref_mut, context guards, frames)
            tainted = Q.forward_taint(b, {nt['dest']['l']})
            if not any(Q.operand_local(a) in tainted for a in rt['a'] if Q.operand_local(a) is not None):
                cx.violation(b.root, 'run-outside-guard-env', 'the command is given an environment that does not derive from the guard',
                             loc=b.loc(rt))
    built = {b.crate for b in F.bodies.values()}
    for fn in GUARD_USERS:
        if fn.split('::')[0] not in built and not fn.startswith('<'):
            continue        # a partial feature configuration that does not build the crate of this command kind
        if fn not in seen:
            cx.violation(fn, 'guard-missing', 'this command kind no longer creates a RedirGuard: its redirections would not be undone',
                         loc=None)



@RS.rule('C09.R1d', 'K-ORDER', 'the target descriptor is saved before anything is opened for the redirection (an open could otherwise land on the closed target and be mistaken for its old contents)')
def r1d(cx):
    F = cx.F
    body = F.main_body(PERFORM)
    cx.fn(body.fn)
    saves = [(b, t) for b, t in Q.find_calls(body, DUP) if any(a.get('cdef') == 'yash_env::io::MIN_INTERNAL_FD' for a in t['a'])]
    cx.require(len(saves) == 1, 'the save (dup to MIN_INTERNAL_FD) was not found in perform')
    openers = _redir_reach(F, OPEN + ['yash_semantics::redir::here_doc::open_fd']) - {PERFORM}
    sites = [(b, t) for b, t in body.calls() if Q.callee_is(t, OPEN + sorted(openers))]
    cx.site('perform: save at %s; %d call(s) that can open a descriptor: %s' % (body.loc(saves[0][1]), len(sites),
                                                                              sorted({pp.callee(t).split("::")[-1] for _, t in sites})))
    cx.require(sites, 'perform calls nothing that opens a descriptor (anchor moved?)')
    for b, t in Q.check_dominated(body, saves, sites):
        cx.violation(PERFORM, 'open-before-save:%s' % pp.callee(t).split('::')[-1], 'a descriptor can be opened (%s) before the target '
                     'descriptor has been saved: when the target is closed and is the lowest free number, the new file lands on it, the '
                     'save then copies the NEW file, and undoing the redirection restores it instead of closing the target'
                     % pp.callee(t), loc=body.loc(t))


# ---------------------------------------------------------------- cancellation (added after the independent audit of the unmodified tree)
HELD_ACROSS_AWAIT_OK = {
    # (function, how the descriptor was obtained): reason the suspension cannot happen / cannot be cancelled
    ('yash_semantics::redir::here_doc::open_fd', 'open_tmpfile'):
        'the only await while the descriptor is held is write_all to the anonymous temporary file just created: a regular file never makes '
        'write_all wait, so the future is never suspended (and therefore never dropped) there',
}


@RS.rule('C09.R9', 'K-RES', 'no descriptor the shell has to close is held as a bare number across an await: a built-in without its own signal '
         'handling (`command ...`) is dropped when SIGINT arrives in an interactive shell, and a dropped future closes nothing')
def r9(cx):
    from rules.C08 import await_done
    F = cx.F
    CLOSE_P = [re.compile(r'::Close::close$')]
    # the premise: execute_builtin races the built-in against SIGINT and drops the loser
    eb = F.main_body('yash_semantics::command::simple_command::builtin::execute_builtin')
    cx.fn(eb.fn)
    sel = Q.find_calls(eb, [re.compile(r'(^|::)select$'), re.compile(r'futures_util::future::select')])
    cx.site('%s races the built-in against SIGINT with select(): %s' % (eb.fn, [eb.loc(t) for _, t in sel] or 'no (nothing is cancelled)'))
    if not sel:
        return
    n = 0
    for k, b in sorted(F.bodies.items()):
        if not (k.startswith('yash_semantics::') or k.startswith('yash_builtin::')):
            continue
        live = b.live_blocks()
        ys = [i for i, blk in enumerate(b.blocks) if blk['t']['k'] == 'yield' and i in live]
        closes = Q.find_calls(b, CLOSE_P) if ys else []
        if not closes:
            continue
        du = Q.DefUse(b)
        owner = re.sub(r'(::\{closure#\d+\})+$', '', k)
        cands = []
        for blk, t in b.calls():
            if Q.callee_is(t, CLOSE_P) or Q.callee_is(t, Q.AWAIT_CALLS + Q.TRY_BRANCH + Q.PROPAGATING_CALLS):
                continue
            ty = b.locals[t['dest']['l']].get('ty', '')
            sig = F.fns.get(t['f'].get('def') or '') or {}
            if 'io::Fd' not in ty and 'io::Fd' not in str(sig.get('output') or ''):
                continue
            done = await_done(F, b, du, t)
            start = done if done is not None else t.get('to')
            if start is not None:
                cands.append((pp.callee(t).split('::')[-1].split(' ')[0], t['dest']['l'], start, b.loc(t)))
        # descriptors received as parameters (captured by the coroutine) that this function closes itself
        for l, d in enumerate(b.locals):
            defs = du.defs.get(l) or []
            from_upvar = len(defs) == 1 and defs[0][1] != 't' and defs[0][2].get('k') == 'assign' and defs[0][2]['rv']['k'] == 'use' and \
                (Q.operand_place(defs[0][2]['rv']['o']) or {}).get('l') == 1 and (Q.operand_place(defs[0][2]['rv']['o']) or {}).get('p')
            if d.get('name') and d.get('ty') == 'yash_env::io::Fd' and (not defs or from_upvar):
                cands.append(('parameter `%s`' % d['name'], l, 0, '%s:%s' % (b.file, b.line)))
        seen_names = set()
        for how, loc0, start, where in cands:
            taint = Q.forward_taint(b, {loc0}, through_calls=Q.PROPAGATING_CALLS + Q.AWAIT_CALLS + Q.TRY_BRANCH)
            mine = {cb for cb, ct in closes if any((Q.operand_place(a) or {}).get('l') in taint for a in ct['a'][1:])}
            if not mine:
                continue
            if how.startswith('parameter') and Q.must_pass(b, [0], mine) is not None:
                continue          # closed on some paths only: the number is an operand of the operation (`n>&-`), not a descriptor this function owns
            n += 1
            reach = b.reachable(start, removed=mine)
            held = sorted({b.blocks[y]['t'].get('line') for y in ys if y in reach and (b.reachable(y) & mine)})
            cx.site('%s: descriptor from %s (%s) is closed by this function; awaits while it is held as a bare number: %s'
                    % (owner, how, where, held or 'none'))
            if not held or (owner, how) in seen_names:
                continue
            seen_names.add((owner, how))
            why = HELD_ACROSS_AWAIT_OK.get((owner, how.split(' ')[0] if not how.startswith('parameter') else how))
            if why:
                cx.site('%s: reviewed: %s' % (owner, why))
                continue
            cx.fn(b.fn)
            cx.violation(owner, 'fd-held-across-await:%s' % how.replace('`', ''), 'the descriptor obtained from %s is kept in a plain variable while the '
                         'function awaits (source line(s) %s) and is closed by the code after the await: when the computation is cancelled there '
                         '(`command <this>` interrupted by SIGINT in an interactive shell drops the built-in\'s future) nothing closes it and the '
                         'shell keeps an extra open descriptor' % (how, held), loc=where)
    cx.floor(n, 3, 'descriptors obtained and closed within one async function')


@RS.rule('C09.R10', 'K-PASS', 'exec makes its redirections permanent whenever the shell survives it: once the arguments are accepted, every return of '
         'the exec built-in - no operand, command not found, execve failed in an interactive shell - has asked for the redirections to be '
         'kept (docs/src/builtins/exec.md; the property\'s one exception to "restored after the command")')
def r10(cx):
    F = cx.F
    body = F.inlined(F.main_body('yash_builtin::exec::main'))
    cx.fn(body.fn)
    keep = Q.find_calls(body, [re.compile(r'builtin::Result::retain_redirs$')])
    # the syntax-error exit returns what the error reporter yields (the command did not run at all)
    rejected = Q.find_calls(body, [re.compile(r'::report_error$'), re.compile(r'::report::report_error$')])
    parse = Q.find_calls(body, [re.compile(r'::parse_arguments$'), re.compile(r'::syntax::parse$')])
    cx.require(parse, 'exec::main no longer parses its arguments with parse_arguments (anchor moved)')
    cx.site('exec::main: retain_redirs x%d at %s; argument-error exits through report_error x%d' %
            (len(keep), [body.loc(t) for _, t in keep], len(rejected)))
    if not keep:
        cx.violation('yash_builtin::exec::main', 'never-retains', 'the exec built-in never asks for its redirections to be kept: '
                     '`exec >file` would be undone like any other command', loc=body.loc(body.d))
        return
    through = {b for b, _ in keep} | {b for b, _ in rejected}
    path = Q.must_pass(body, [0], through)
    if path is not None:
        cx.violation('yash_builtin::exec::main', 'return-without-retain', 'the exec built-in can return without having asked for its '
                     'redirections to be kept: `exec 3>log /no/such/utility` in an interactive shell (the shell survives the failed exec) '
                     'would roll the redirection back, although exec.md says the redirections persist', loc=body.loc(body.blocks[path[-1]]['t']),
                     path=Q.render_path(body, path))


# --- explanation addendum (generated catalogue in DESIGN.md reads RS.explanation)
RS.explanation += ' Added later: the target descriptor is saved before anything is opened (R1d); no descriptor the shell must close is held as a bare number across an await of a cancellable computation (R9, K-RES with yield terminators as cancellation points; three open findings).'
RS.explanation += ' The exec built-in asks for its redirections to be kept on every return after its arguments were accepted (R10).'


# --- wave 5: a command substitution in the operand of a redirection whose subshell cannot be started (seed C09-s9): the pipe made
# for it must not stay open in the shell after the failed redirection
from rules.C08 import r11 as _c08_cmdsubst_pipe_closed_on_every_exit
from engine import Rule
RS.rules.append(Rule('C09.R11', 'K-RES', 'a redirection whose operand contains a command substitution leaves no descriptor behind when the '
                     'subshell cannot be started: both ends of the pipe made for the substitution are closed on the start-failure exit '
                     '(C08.R11 / C14.R1)', _c08_cmdsubst_pipe_closed_on_every_exit))
RS.explanation += ' The pipe of a command substitution inside a redirection operand is closed on the start-failure exit too (R11 = C08.R11).'


# --- wave 5 (seed C09-s10): a pipe() that fails inside a redirection (command substitution in the operand, EMFILE) leaves nothing open
from rules.C19 import r10 as _c19_pipe_allocates_nothing_on_failure
RS.rules.append(Rule('C09.R12', 'K-RES', 'a redirection that fails because pipe() failed leaves no descriptor behind: the simulated pipe() '
                     'closes the reading end again when the writing end cannot be allocated (EMFILE), as a real pipe() allocates both or '
                     'none (C19.R10)', _c19_pipe_allocates_nothing_on_failure))
RS.explanation += ' A failing pipe() leaves no descriptor behind (R12 = C19.R10).'
