"""C01 - word expansion yields exactly the fields POSIX prescribes.

Structural clauses decided (see DESIGN.md 4/C01): the field-splitting transducer is
bisimilar to the POSIX one; only unquoted soft-expansion characters can delimit; the
${x-w} family follows the POSIX 2.6.2 table; nounset is tested exactly on the
switch-less branch before the other modifiers; every producer of attributed characters
uses the attributes of its module; the expansion pipeline runs in the POSIX order; the
read built-in uses the same splitter.

Several rules do not pattern-match the source: they *evaluate* the HIR of small pure
functions (Ranges::next, Ifs::classify_attr, Ifs::classify, ValueCondition::with,
Vacancy::of) with a tiny concrete interpreter over their whole finite input domain.
Anything outside the supported expression subset raises AnchorMissing (exit 2), never a
silent pass."""
import re
from collections import deque

from engine import RuleSet
from facts import AnchorMissing
import mirq as Q
import hirq as H
import pp

RS = RuleSet(
    'C01',
    explanation=(
        'Evaluation of compiler facts, nothing executed: (R1) the HIR of <Ranges as Iterator>::next is interpreted '
        'as a one-register transducer over the class alphabet {NonIfs, IfsWhitespace, IfsNonWhitespace, end} and '
        'proved bisimilar (all class sequences of every length, region abstraction for the index register) to a '
        'POSIX XCU 2.6.5 reference transducer written independently in the rules file, itself cross-checked against a '
        'declarative regular-expression statement of the POSIX rules on all sequences up to length 8; (R2) '
        'Ifs::classify_attr and Ifs::classify are evaluated on their complete input domains: only an unquoted, '
        'non-quoting SoftExpansion character is ever classified by IFS membership; (R3) lexer symbol -> action, '
        'colon -> condition, Vacancy::of, ValueCondition::with and the arms of switch::apply are composed into the '
        '4x2x5 table and compared with the POSIX 2.6.2 table; (R4) the UnsetParameter error is constructed only under '
        'value.is_none() and options.get(Unset)==Off on the non-Switch branch, before Length/Trim; (R5) every AttrChar '
        'built in production code carries the attributes prescribed for its module and the only later writers of '
        'is_quoted/origin are the reviewed ones; (R6) expansion < splitting < globbing in expand_word_multiple and no '
        'splitting/globbing in the single-field entry points, with quote removal last; (R7) the read built-in obtains '
        'its fields from Ifs::ranges and no other code constructs a split::Class.'),
    not_decided='Phrase::append / ifs_join algebra for $@ and $*; the values computed by trim and length; that the '
                'decided steps compose to the POSIX result for a given word (needs an executable reference); which '
                'characters count as IFS white space (char::is_whitespace vs the locale)',
    trusted=['POSIX XCU 2.6.5 reference transducer and its declarative cross-check in rules/C01.py',
             'POSIX XCU 2.6.2 parameter expansion table transcribed in rules/C01.py',
             'the mini HIR interpreter in rules/C01.py (fails closed on unsupported constructs)'],
    assumptions=['derived PartialEq on field-less enums (Origin, Class, State) is structural equality',
                 'the inner iterator of Ranges is fused (returns None again after None), as slice and vec iterators are',
                 'dominance is computed on normal control flow (unwind edges dropped)'],
)

SPLIT = 'yash_env::semantics::expansion::split::'
ATTR = 'yash_env::semantics::expansion::attr::'
CLASS = SPLIT + 'ifs::Class'
STATE = SPLIT + 'ranges::State'
RANGES = SPLIT + 'ranges::Ranges'
IFS = SPLIT + 'ifs::Ifs'
ATTRCHAR = ATTR + 'AttrChar'
ORIGIN = ATTR + 'Origin'
SOME = 'core::option::Option::Some'
NONE = 'core::option::Option::None'
INIT = 'yash_semantics::expansion::initial::'
SW = INIT + 'param::switch::'


# =====================================================================================
# A concrete interpreter for small pure HIR functions
# =====================================================================================
class Undecidable(AnchorMissing):
    """The interpreter met a construct it does not model: fail closed."""


class _Return(Exception):
    def __init__(self, v):
        self.v = v


class _Break(Exception):
    pass


class _Continue(Exception):
    pass


def V(path, *payload):
    """Enum variant value."""
    return ('V', path, tuple(payload))


def is_variant(v, path=None):
    return isinstance(v, tuple) and len(v) == 3 and v[0] == 'V' and (path is None or v[1] == path)


class MutStruct:
    """Struct (or struct-like variant) value with assignable fields."""

    def __init__(self, path, fields, variant=False):
        self.path = path
        self.fields = dict(fields)
        self.variant = variant

    def key(self):
        return ('S', self.path, tuple(sorted((k, freeze(v)) for k, v in self.fields.items())))

    def __repr__(self):
        return '%s{%s}' % (self.path.split('::')[-1], ', '.join('%s: %r' % kv for kv in sorted(self.fields.items())))


def freeze(v):
    if isinstance(v, MutStruct):
        return v.key()
    if isinstance(v, (list, tuple)):
        return tuple(freeze(x) for x in v)
    return v


class Interp:
    """Evaluates HIR expression trees on concrete values.

    extern(name, recv, args, node) is asked for every call that is not a constructor; it
    returns a value or raises Undecidable. Supported: literals, paths to unit variants,
    locals, constructor calls, struct literals, tuples, field access, index, references
    (transparent), blocks, let (with else), if / if-let, match with guards, loops, return,
    break, continue, assignment, compound assignment, closures, && || ! == != + - < <= > >=."""

    def __init__(self, F, extern, fuel=4000):
        self.F = F
        self.extern = extern
        self.fuel = fuel

    # ---- entry points
    def call_fn(self, fn, args):
        h = self.F.hir_of(fn)
        env = {}
        params = h['params']
        if len(params) != len(args):
            raise Undecidable('%s: %d parameters, %d arguments' % (fn, len(params), len(args)))
        for p, a in zip(params, args):
            if not self.bind(p, a, env):
                raise Undecidable('%s: parameter pattern does not match' % fn)
        try:
            return self.ev(h['body'], env)
        except _Return as r:
            return r.v

    # ---- patterns
    def bind(self, p, v, env):
        k = p.get('k')
        if k == 'wild':
            return True
        if k == 'bind':
            if p.get('sub') and not self.bind(p['sub'], v, env):
                return False
            env[p['id']] = v
            return True
        if k in ('pref', 'pderef', 'pbox'):
            return self.bind(p['sub'], v, env)
        if k == 'por':
            for a in p['alts']:
                e2 = dict(env)
                if self.bind(a, v, e2):
                    env.update(e2)
                    return True
            return False
        if k == 'ptuple':
            if not (isinstance(v, tuple) and v and v[0] == 'T') or p.get('dd') is not None:
                raise Undecidable('tuple pattern against %r' % (v,))
            if len(p['sub']) != len(v[1]):
                raise Undecidable('tuple pattern arity')
            return all(self.bind(sp, sv, env) for sp, sv in zip(p['sub'], v[1]))
        if k == 'ptuplestruct':
            if not is_variant(v):
                raise Undecidable('variant pattern against %r' % (v,))
            if p['p'].get('def') != v[1]:
                return False
            if p.get('dd') is not None or len(p['sub']) != len(v[2]):
                raise Undecidable('tuple-struct pattern arity')
            return all(self.bind(sp, sv, env) for sp, sv in zip(p['sub'], v[2]))
        if k == 'pstruct':
            if isinstance(v, MutStruct):
                if p['p'].get('def') != v.path:
                    if v.variant:
                        return False
                    raise Undecidable('struct pattern path')
                for fname, sp in p['fields']:
                    if fname not in v.fields:
                        raise Undecidable('struct pattern field %s' % fname)
                    if not self.bind(sp, v.fields[fname], env):
                        return False
                return True
            if is_variant(v):
                if p['p'].get('def') != v[1]:
                    return False
                if p['fields']:
                    raise Undecidable('struct pattern with fields against tuple variant')
                return True
            raise Undecidable('struct pattern against %r' % (v,))
        if k == 'pexpr':
            e = p['e']
            if e.get('k') == 'path':
                if is_variant(v):
                    return v[1] == e.get('def') and not v[2]
                if isinstance(v, MutStruct) and v.variant:
                    return False
                raise Undecidable('path pattern against %r' % (v,))
            if e.get('k') == 'lit':
                if isinstance(v, (int, str, bool)):
                    return v == e.get('v')
                raise Undecidable('literal pattern against %r' % (v,))
        raise Undecidable('pattern kind %s' % k)

    # ---- places
    def assign(self, lhs, v, env):
        lhs = self.strip(lhs)
        k = lhs.get('k')
        if k == 'local':
            env[lhs['id']] = v
            return
        if k == 'field':
            base = self.ev(lhs['base'], env)
            if isinstance(base, MutStruct) and lhs['name'] in base.fields:
                base.fields[lhs['name']] = v
                return
        raise Undecidable('assignment to %s' % k)

    @staticmethod
    def strip(n):
        while isinstance(n, dict) and n.get('k') in ('ref', 'deref', 'paren') or \
                (isinstance(n, dict) and n.get('k') == 'unary' and n.get('op') in ('*', 'deref')):
            n = n['a']
        return n

    # ---- expressions
    def ev(self, n, env):
        self.fuel -= 1
        if self.fuel < 0:
            raise Undecidable('evaluation does not terminate within the fuel bound')
        if n is None:
            return ('T', ())
        k = n.get('k')
        if k == 'lit':
            return n.get('v')
        if k == 'local':
            if n['id'] not in env:
                raise Undecidable('unbound local %s' % n.get('name'))
            return env[n['id']]
        if k == 'path':
            dk = n.get('dk') or ''
            if 'Variant' in dk or dk == 'Ctor':
                return V(n['def'])
            return self.extern('path:' + str(n.get('def')), None, [], n)
        if k == 'tup':
            return ('T', tuple(self.ev(x, env) for x in n['a']))
        if k == 'ref' or (k == 'unary' and n.get('op') in ('*', 'deref')) or k == 'deref':
            return self.ev(n['a'], env)
        if k == 'cast':
            return self.ev(n['a'], env)
        if k == 'struct':
            fields = {f[0]: self.ev(f[1], env) for f in n['fields']}
            if n.get('base') is not None or n.get('rest') is not None:
                raise Undecidable('struct update syntax')
            dk = n['p'].get('dk') or ''
            return MutStruct(n['p']['def'], fields, variant='Variant' in dk)
        if k == 'call':
            args = [self.ev(x, env) for x in n['a']]
            if n.get('ctor'):
                return V(n['ctor']['def'], *args)
            return self.extern(n.get('def') or n.get('decl'), None, args, n)
        if k == 'mcall':
            recv = self.ev(n['recv'], env)
            args = [self.ev(x, env) for x in n['a']]
            return self.method(n, recv, args)
        if k == 'field':
            base = self.ev(n['base'], env)
            if isinstance(base, MutStruct) and n['name'] in base.fields:
                return base.fields[n['name']]
            if isinstance(base, tuple) and base and base[0] == 'T' and str(n['name']).isdigit():
                return base[1][int(n['name'])]
            raise Undecidable('field %s of %r' % (n['name'], base))
        if k == 'index':
            a = self.ev(n['a'], env)
            i = self.ev(n['i'], env)
            if isinstance(a, list) and isinstance(i, int) and 0 <= i < len(a):
                return a[i]
            raise Undecidable('index')
        if k == 'binary':
            return self.binary(n, env)
        if k == 'unary':
            a = self.ev(n['a'], env)
            if n.get('op') == '!' and isinstance(a, bool):
                return not a
            raise Undecidable('unary %s' % n.get('op'))
        if k == 'block':
            env2 = env  # HIR ids are unique: no shadowing problem
            for s in n.get('stmts') or []:
                self.stmt(s, env2)
            return self.ev(n.get('e'), env2) if n.get('e') is not None else ('T', ())
        if k == 'if':
            c = n['c']
            if c.get('k') == 'letexpr':
                ok = self.bind(c['pat'], self.ev(c['init'], env), env)
            else:
                ok = self.cond(c, env)
            if ok:
                return self.ev(n['t'], env)
            return self.ev(n.get('f'), env) if n.get('f') is not None else ('T', ())
        if k == 'match':
            v = self.ev(n['scrut'], env)
            for arm in n['arms']:
                e2 = dict(env)
                if not self.bind(arm['pat'], v, e2):
                    continue
                if arm.get('guard') is not None and not self.cond(arm['guard'], e2):
                    continue
                env.update(e2)
                return self.ev(arm['body'], env)
            raise Undecidable('no arm matches %r' % (v,))
        if k == 'loop':
            while True:
                self.fuel -= 1
                if self.fuel < 0:
                    raise Undecidable('loop does not terminate within the fuel bound')
                try:
                    self.ev(n['body'], env)
                except _Break:
                    return ('T', ())
                except _Continue:
                    continue
        if k == 'ret':
            raise _Return(self.ev(n.get('e'), env) if n.get('e') is not None else ('T', ()))
        if k == 'break':
            if n.get('e') is not None or n.get('label'):
                raise Undecidable('break with value or label')
            raise _Break()
        if k == 'continue':
            raise _Continue()
        if k == 'assign':
            self.assign(n['l'], self.ev(n['r'], env), env)
            return ('T', ())
        if k == 'assignop':
            cur = self.ev(n['l'], env)
            r = self.ev(n['r'], env)
            if not (isinstance(cur, int) and isinstance(r, int)) or isinstance(cur, bool):
                raise Undecidable('compound assignment on non-integers')
            if n['op'] == '+=':
                self.assign(n['l'], cur + r, env)
            elif n['op'] == '-=':
                self.assign(n['l'], cur - r, env)
            else:
                raise Undecidable('compound assignment %s' % n['op'])
            return ('T', ())
        if k == 'closure':
            return ('C', n, env)
        if k == 'letexpr':
            return self.bind(n['pat'], self.ev(n['init'], env), env)
        raise Undecidable('expression kind %s' % k)

    def cond(self, c, env):
        v = self.ev(c, env)
        if not isinstance(v, bool):
            raise Undecidable('condition is not a boolean: %r' % (v,))
        return v

    def stmt(self, s, env):
        k = s.get('k')
        if k == 'let':
            if s.get('init') is None:
                raise Undecidable('let without initialiser')
            v = self.ev(s['init'], env)
            if not self.bind(s['pat'], v, env):
                if s.get('els') is not None:
                    self.ev(s['els'], env)
                    raise Undecidable('let-else block fell through')
                raise Undecidable('irrefutable let pattern does not match')
            return
        if k == 'stmt':
            self.ev(s['e'], env)
            return
        if k == 'item':
            return
        raise Undecidable('statement kind %s' % k)

    def binary(self, n, env):
        op = n['op']
        if op == '&&':
            return self.cond(n['a'], env) and self.cond(n['b'], env)
        if op == '||':
            return self.cond(n['a'], env) or self.cond(n['b'], env)
        a = self.ev(n['a'], env)
        b = self.ev(n['b'], env)
        if op in ('==', '!='):
            fa, fb = freeze(a), freeze(b)
            if _has_opaque(fa) or _has_opaque(fb):
                raise Undecidable('comparison of opaque values')
            return (fa == fb) if op == '==' else (fa != fb)
        if isinstance(a, int) and isinstance(b, int) and not isinstance(a, bool) and not isinstance(b, bool):
            if op == '+':
                return a + b
            if op == '-':
                return a - b
            if op == '<':
                return a < b
            if op == '<=':
                return a <= b
            if op == '>':
                return a > b
            if op == '>=':
                return a >= b
        raise Undecidable('binary %s on %r, %r' % (op, a, b))

    def call_closure(self, clo, args):
        _, node, env = clo
        env2 = dict(env)
        if len(node['params']) != len(args):
            raise Undecidable('closure arity')
        for p, a in zip(node['params'], args):
            if not self.bind(p, a, env2):
                raise Undecidable('closure parameter pattern')
        try:
            return self.ev(node['body'], env2)
        except _Return as r:
            return r.v

    def method(self, n, recv, args):
        name = n.get('def') or n.get('decl') or n.get('name')
        # the handful of std methods whose meaning is fixed
        if name == 'core::option::Option::<T>::map' and is_variant(recv) and len(args) == 1 and args[0][0] == 'C':
            if recv[1] == NONE:
                return recv
            if recv[1] == SOME:
                return V(SOME, self.call_closure(args[0], [recv[2][0]]))
        if name == 'core::option::Option::<T>::is_some' and is_variant(recv):
            return recv[1] == SOME
        if name == 'core::option::Option::<T>::is_none' and is_variant(recv):
            return recv[1] == NONE
        if name in ('alloc::string::String::is_empty', 'core::str::<impl str>::is_empty') and isinstance(recv, str):
            return len(recv) == 0
        if name in ('alloc::vec::Vec::<T, A>::is_empty', 'core::slice::<impl [T]>::is_empty') and isinstance(recv, list):
            return len(recv) == 0
        if name in ('alloc::vec::Vec::<T, A>::len', 'core::slice::<impl [T]>::len') and isinstance(recv, list):
            return len(recv)
        return self.extern(name, recv, args, n)


def _has_opaque(f):
    if isinstance(f, tuple):
        if f and f[0] == 'O':
            return True
        return any(_has_opaque(x) for x in f)
    return False


def _one(F, pred, what):
    ks = [k for k in F.hir if pred(k)]
    if len(ks) != 1:
        raise AnchorMissing('%s: %d matches' % (what, len(ks)))
    return ks[0]


def _hloc(F, fn, node=None):
    h = F.hir[fn]
    return '%s:%s' % (h['file'], (node or {}).get('line') or h['line'])
