"""C01 - word expansion yields exactly the fields POSIX prescribes.

Structural clauses decided (see DESIGN.md 4/C01): the field-splitting transducer is
bisimilar to the POSIX one; only unquoted soft-expansion characters can delimit; the
${x-w} family follows the POSIX 2.6.2 table; nounset is tested exactly on the
switch-less branch before the other modifiers; every producer of attributed characters
uses the attributes of its module; the expansion pipeline runs in the POSIX order; the
read built-in uses the same splitter.

Several rules do not pattern-match the source: they *evaluate* the HIR of small pure
functions (Ranges::next, Ifs::classify_attr, Ifs::classify, ValueCondition::with,
Vacancy::of) with a tiny concrete interpreter over their whole finite input domain.
Anything outside the supported expression subset raises AnchorMissing (exit 2), never a
silent pass."""
import re
from collections import deque

from engine import RuleSet
from facts import AnchorMissing
import mirq as Q
import hirq as H
import pp

RS = RuleSet(
    'C01',
    explanation=(
        'Evaluation of compiler facts, nothing executed: (R1) the HIR of <Ranges as Iterator>::next is interpreted '
        'as a one-register transducer over the class alphabet {NonIfs, IfsWhitespace, IfsNonWhitespace, end} and '
        'proved bisimilar (all class sequences of every length, region abstraction for the index register) to a '
        'POSIX XCU 2.6.5 reference transducer written independently in the rules file, itself cross-checked against a '
        'declarative regular-expression statement of the POSIX rules on all sequences up to length 8; (R2) '
        'Ifs::classify_attr and Ifs::classify are evaluated on their complete input domains: only an unquoted, '
        'non-quoting SoftExpansion character is ever classified by IFS membership; (R3) lexer symbol -> action, '
        'colon -> condition, Vacancy::of, ValueCondition::with and the arms of switch::apply are composed into the '
        '4x2x5 table and compared with the POSIX 2.6.2 table; (R4) the UnsetParameter error is constructed only under '
        'value.is_none() and options.get(Unset)==Off, is unreachable when every test of self.modifier takes its Switch '
        'edge, and (conditional constant propagation over the MIR) no length/trim code is reachable once the value is unset '
        'and the option off; (R5) every AttrChar '
        'built in production code carries the attributes prescribed for its module and the only later writers of '
        'is_quoted/is_quoting/origin are the reviewed ones; (R5b) single_quote, dollar_single_quote, to_field and the Literal / '
        'Backslashed arms of TextUnit::expand are evaluated on sample strings and must mark exactly the enclosed characters as '
        'quoted and the marks as quoting, every other unit delegates to its reviewed expander, and the DoubleQuote arm expands '
        'in a non-splitting context, restores the context on success and on error, and passes the phrase through double_quote; '
        '(R6) expansion < splitting < globbing in expand_word_multiple and no '
        'splitting/globbing in the single-field entry points, with quote removal last; (R7) the read built-in obtains '
        'its fields from Ifs::ranges and no other code constructs a split::Class.'),
    not_decided='Phrase::append / ifs_join algebra for $@ and $*; the values computed by trim and length; that the '
                'decided steps compose to the POSIX result for a given word (needs an executable reference); which '
                'characters count as IFS white space (char::is_whitespace vs the locale)',
    trusted=['POSIX XCU 2.6.5 reference transducer and its declarative cross-check in rules/C01.py',
             'POSIX XCU 2.6.2 parameter expansion table transcribed in rules/C01.py',
             'the mini HIR interpreter in rules/C01.py (fails closed on unsupported constructs)'],
    assumptions=['derived PartialEq on field-less enums (Origin, Class, State) is structural equality',
                 'the inner iterator of Ranges is fused (returns None again after None), as slice and vec iterators are',
                 'dominance is computed on normal control flow (unwind edges dropped)'],
)

SPLIT = 'yash_env::semantics::expansion::split::'
ATTR = 'yash_env::semantics::expansion::attr::'
CLASS = SPLIT + 'ifs::Class'
STATE = SPLIT + 'ranges::State'
RANGES = SPLIT + 'ranges::Ranges'
IFS = SPLIT + 'ifs::Ifs'
ATTRCHAR = ATTR + 'AttrChar'
ORIGIN = ATTR + 'Origin'
SOME = 'core::option::Option::Some'
NONE = 'core::option::Option::None'
INIT = 'yash_semantics::expansion::initial::'
SW = INIT + 'param::switch::'


# =====================================================================================
# A concrete interpreter for small pure HIR functions
# =====================================================================================
class Undecidable(AnchorMissing):
    """The interpreter met a construct it does not model: fail closed."""


class OutOfFuel(Undecidable):
    """Evaluation exceeded its step bound (a loop that does not end)."""


class _Return(Exception):
    def __init__(self, v):
        self.v = v


class _Break(Exception):
    pass


class _Continue(Exception):
    pass


def V(path, *payload):
    """Enum variant value."""
    return ('V', path, tuple(payload))


def is_variant(v, path=None):
    return isinstance(v, tuple) and len(v) == 3 and v[0] == 'V' and (path is None or v[1] == path)


class MutStruct:
    """Struct (or struct-like variant) value with assignable fields."""

    def __init__(self, path, fields, variant=False):
        self.path = path
        self.fields = dict(fields)
        self.variant = variant

    def key(self):
        return ('S', self.path, tuple(sorted((k, freeze(v)) for k, v in self.fields.items())))

    def __repr__(self):
        return '%s{%s}' % (self.path.split('::')[-1], ', '.join('%s: %r' % kv for kv in sorted(self.fields.items())))


def freeze(v):
    if isinstance(v, MutStruct):
        return v.key()
    if isinstance(v, (list, tuple)):
        return tuple(freeze(x) for x in v)
    return v


class Interp:
    """Evaluates HIR expression trees on concrete values.

    extern(name, recv, args, node) is asked for every call that is not a constructor; it
    returns a value or raises Undecidable. Supported: literals, paths to unit variants,
    locals, constructor calls, struct literals, tuples, field access, index, references
    (transparent), blocks, let (with else), if / if-let, match with guards, loops, return,
    break, continue, `for` over an iterator supplied by extern, assignment, compound assignment,
    mem::replace, closures, && || ! == != + - < <= > >=."""

    def __init__(self, F, extern, fuel=4000):
        self.F = F
        self.extern = extern
        self.fuel = fuel

    # ---- entry points
    def call_fn(self, fn, args):
        h = self.F.hir_of(fn)
        env = {}
        params = h['params']
        if len(params) != len(args):
            raise Undecidable('%s: %d parameters, %d arguments' % (fn, len(params), len(args)))
        for p, a in zip(params, args):
            if not self.bind(p, a, env):
                raise Undecidable('%s: parameter pattern does not match' % fn)
        try:
            return self.ev(h['body'], env)
        except _Return as r:
            return r.v

    # ---- patterns
    def bind(self, p, v, env):
        k = p.get('k')
        if k == 'wild':
            return True
        if k == 'bind':
            if p.get('sub') and not self.bind(p['sub'], v, env):
                return False
            env[p['id']] = v
            return True
        if k in ('pref', 'pderef', 'pbox'):
            return self.bind(p['sub'], v, env)
        if k == 'por':
            for a in p['alts']:
                e2 = dict(env)
                if self.bind(a, v, e2):
                    env.update(e2)
                    return True
            return False
        if k == 'ptuple':
            if not (isinstance(v, tuple) and v and v[0] == 'T') or p.get('dd') is not None:
                raise Undecidable('tuple pattern against %r' % (v,))
            if len(p['sub']) != len(v[1]):
                raise Undecidable('tuple pattern arity')
            return all(self.bind(sp, sv, env) for sp, sv in zip(p['sub'], v[1]))
        if k == 'ptuplestruct':
            if not is_variant(v):
                raise Undecidable('variant pattern against %r' % (v,))
            if p['p'].get('def') != v[1]:
                return False
            if p.get('dd') is not None or len(p['sub']) != len(v[2]):
                raise Undecidable('tuple-struct pattern arity')
            return all(self.bind(sp, sv, env) for sp, sv in zip(p['sub'], v[2]))
        if k == 'pstruct':
            if isinstance(v, MutStruct):
                if p['p'].get('def') != v.path:
                    if v.variant:
                        return False
                    raise Undecidable('struct pattern path')
                for fname, sp in p['fields']:
                    if fname not in v.fields:
                        raise Undecidable('struct pattern field %s' % fname)
                    if not self.bind(sp, v.fields[fname], env):
                        return False
                return True
            if is_variant(v):
                if p['p'].get('def') != v[1]:
                    return False
                if p['fields']:
                    raise Undecidable('struct pattern with fields against tuple variant')
                return True
            raise Undecidable('struct pattern against %r' % (v,))
        if k == 'pexpr':
            e = p['e']
            if e.get('k') == 'path':
                if is_variant(v):
                    return v[1] == e.get('def') and not v[2]
                if isinstance(v, MutStruct) and v.variant:
                    return False
                raise Undecidable('path pattern against %r' % (v,))
            if e.get('k') == 'lit':
                if isinstance(v, (int, str, bool)):
                    return v == e.get('v')
                raise Undecidable('literal pattern against %r' % (v,))
        raise Undecidable('pattern kind %s' % k)

    # ---- places
    def assign(self, lhs, v, env):
        lhs = self.strip(lhs)
        k = lhs.get('k')
        if k == 'local':
            env[lhs['id']] = v
            return
        if k == 'field':
            base = self.ev(lhs['base'], env)
            if isinstance(base, MutStruct) and lhs['name'] in base.fields:
                base.fields[lhs['name']] = v
                return
        raise Undecidable('assignment to %s' % k)

    @staticmethod
    def strip(n):
        while isinstance(n, dict) and n.get('k') in ('ref', 'deref', 'paren') or \
                (isinstance(n, dict) and n.get('k') == 'unary' and n.get('op') in ('*', 'deref')):
            n = n['a']
        return n

    # ---- expressions
    def ev(self, n, env):
        self.fuel -= 1
        if self.fuel < 0:
            raise OutOfFuel('evaluation does not terminate within the fuel bound')
        if n is None:
            return ('T', ())
        k = n.get('k')
        if k == 'lit':
            return n.get('v')
        if k == 'local':
            if n['id'] not in env:
                raise Undecidable('unbound local %s' % n.get('name'))
            return env[n['id']]
        if k == 'path':
            dk = n.get('dk') or ''
            if 'Variant' in dk or dk == 'Ctor':
                return V(n['def'])
            if dk.startswith(('Const', 'AssocConst')) and n.get('def') in self.F.hir and \
                    str(self.F.hir[n['def']].get('kind')).startswith(('Const', 'AssocConst')):
                return self.ev(self.F.hir[n['def']]['body'], {})
            return self.extern('path:' + str(n.get('def')), None, [], n)
        if k == 'tup':
            return ('T', tuple(self.ev(x, env) for x in n['a']))
        if k == 'ref' or (k == 'unary' and n.get('op') in ('*', 'deref')) or k == 'deref':
            return self.ev(n['a'], env)
        if k == 'cast':
            return self.ev(n['a'], env)
        if k == 'array':
            return [self.ev(x, env) for x in n['a']]
        if k == 'struct':
            fields = {}
            if n.get('base') is not None:
                base = self.ev(n['base'], env) if isinstance(n['base'], dict) else None
                if not isinstance(base, MutStruct) or base.path != n['p']['def']:
                    raise Undecidable('struct update syntax')
                fields.update(base.fields)
            fields.update({f[0]: self.ev(f[1], env) for f in n['fields']})
            dk = n['p'].get('dk') or ''
            return MutStruct(n['p']['def'], fields, variant='Variant' in dk)
        if k == 'call':
            if n.get('def') == 'core::mem::replace' and len(n['a']) == 2:
                old = self.ev(n['a'][0], env)
                self.assign(n['a'][0], self.ev(n['a'][1], env), env)
                return old
            args = [self.ev(x, env) for x in n['a']]
            if n.get('ctor'):
                return V(n['ctor']['def'], *args)
            nm = n.get('def') or n.get('decl')
            if nm in ('alloc::vec::Vec::<T>::with_capacity', 'alloc::vec::Vec::<T>::new'):
                return []
            # the expansion of vec![a, b, ..]
            if nm == 'alloc::boxed::Box::<T>::new_uninit' and not args:
                return ('O', 'uninit-box')
            if nm == 'alloc::intrinsics::write_box_via_move' and len(args) == 2 and args[0] == ('O', 'uninit-box') and isinstance(args[1], list):
                return args[1]
            if nm == 'alloc::boxed::box_assume_init_into_vec_unsafe' and len(args) == 1 and isinstance(args[0], list):
                return args[0]
            return self.extern(nm, None, args, n)
        if k == 'mcall':
            recv = self.ev(n['recv'], env)
            args = [self.ev(x, env) for x in n['a']]
            return self.method(n, recv, args)
        if k == 'field':
            base = self.ev(n['base'], env)
            if isinstance(base, MutStruct) and n['name'] in base.fields:
                return base.fields[n['name']]
            if isinstance(base, tuple) and base and base[0] == 'T' and str(n['name']).isdigit():
                return base[1][int(n['name'])]
            raise Undecidable('field %s of %r' % (n['name'], base))
        if k == 'index':
            a = self.ev(n['a'], env)
            i = self.ev(n['i'], env)
            if isinstance(a, list) and isinstance(i, int) and 0 <= i < len(a):
                return a[i]
            raise Undecidable('index')
        if k == 'binary':
            return self.binary(n, env)
        if k == 'unary':
            a = self.ev(n['a'], env)
            if n.get('op') == '!' and isinstance(a, bool):
                return not a
            raise Undecidable('unary %s' % n.get('op'))
        if k == 'block':
            env2 = env  # HIR ids are unique: no shadowing problem
            for s in n.get('stmts') or []:
                self.stmt(s, env2)
            return self.ev(n.get('e'), env2) if n.get('e') is not None else ('T', ())
        if k == 'if':
            c = n['c']
            if c.get('k') == 'letexpr':
                ok = self.bind(c['pat'], self.ev(c['init'], env), env)
            else:
                ok = self.cond(c, env)
            if ok:
                return self.ev(n['t'], env)
            return self.ev(n.get('f'), env) if n.get('f') is not None else ('T', ())
        if k == 'match':
            v = self.ev(n['scrut'], env)
            for arm in n['arms']:
                e2 = dict(env)
                if not self.bind(arm['pat'], v, e2):
                    continue
                if arm.get('guard') is not None and not self.cond(arm['guard'], e2):
                    continue
                env.update(e2)
                return self.ev(arm['body'], env)
            raise Undecidable('no arm matches %r' % (v,))
        if k == 'loop':
            while True:
                self.fuel -= 1
                if self.fuel < 0:
                    raise OutOfFuel('loop does not terminate within the fuel bound')
                try:
                    self.ev(n['body'], env)
                except _Break:
                    return ('T', ())
                except _Continue:
                    continue
        if k == 'for':
            itv = self.ev(n['iter'], env)
            while True:
                self.fuel -= 1
                if self.fuel < 0:
                    raise OutOfFuel('loop does not terminate within the fuel bound')
                r = self.extern('core::iter::traits::iterator::Iterator::next', itv, [], n)
                if is_variant(r, NONE):
                    return ('T', ())
                if not is_variant(r, SOME) or not self.bind(n['pat'], r[2][0], env):
                    raise Undecidable('for loop item %r' % (r,))
                try:
                    self.ev(n['body'], env)
                except _Break:
                    return ('T', ())
                except _Continue:
                    continue
        if k == 'ret':
            raise _Return(self.ev(n.get('e'), env) if n.get('e') is not None else ('T', ()))
        if k == 'break':
            if n.get('e') is not None or n.get('label'):
                raise Undecidable('break with value or label')
            raise _Break()
        if k == 'continue':
            raise _Continue()
        if k == 'assign':
            self.assign(n['l'], self.ev(n['r'], env), env)
            return ('T', ())
        if k == 'assignop':
            cur = self.ev(n['l'], env)
            r = self.ev(n['r'], env)
            if not (isinstance(cur, int) and isinstance(r, int)) or isinstance(cur, bool):
                raise Undecidable('compound assignment on non-integers')
            if n['op'] == '+=':
                self.assign(n['l'], cur + r, env)
            elif n['op'] == '-=':
                self.assign(n['l'], cur - r, env)
            else:
                raise Undecidable('compound assignment %s' % n['op'])
            return ('T', ())
        if k == 'closure':
            return ('C', n, env)
        if k == 'await':
            return self.ev(n['e'], env)       # the awaited call is answered by extern with its output
        if k == 'try':
            v = self.ev(n['e'], env)
            if is_variant(v, 'core::result::Result::Ok') or is_variant(v, SOME):
                return v[2][0]
            if is_variant(v, 'core::result::Result::Err') or is_variant(v, NONE):
                raise _Return(v)
            raise Undecidable('`?` on %r' % (v,))
        if k == 'letexpr':
            return self.bind(n['pat'], self.ev(n['init'], env), env)
        raise Undecidable('expression kind %s' % k)

    def cond(self, c, env):
        v = self.ev(c, env)
        if not isinstance(v, bool):
            raise Undecidable('condition is not a boolean: %r' % (v,))
        return v

    def stmt(self, s, env):
        k = s.get('k')
        if k == 'let':
            if s.get('init') is None:
                raise Undecidable('let without initialiser')
            v = self.ev(s['init'], env)
            if not self.bind(s['pat'], v, env):
                if s.get('els') is not None:
                    self.ev(s['els'], env)
                    raise Undecidable('let-else block fell through')
                raise Undecidable('irrefutable let pattern does not match')
            return
        if k == 'stmt':
            self.ev(s['e'], env)
            return
        if k == 'item':
            return
        raise Undecidable('statement kind %s' % k)

    def binary(self, n, env):
        op = n['op']
        if op == '&&':
            return self.cond(n['a'], env) and self.cond(n['b'], env)
        if op == '||':
            return self.cond(n['a'], env) or self.cond(n['b'], env)
        a = self.ev(n['a'], env)
        b = self.ev(n['b'], env)
        if op in ('==', '!='):
            fa, fb = freeze(a), freeze(b)
            if _has_opaque(fa) or _has_opaque(fb):
                raise Undecidable('comparison of opaque values')
            return (fa == fb) if op == '==' else (fa != fb)
        if isinstance(a, int) and isinstance(b, int) and not isinstance(a, bool) and not isinstance(b, bool):
            if op == '+':
                return a + b
            if op == '-':
                return a - b
            if op == '<':
                return a < b
            if op == '<=':
                return a <= b
            if op == '>':
                return a > b
            if op == '>=':
                return a >= b
        raise Undecidable('binary %s on %r, %r' % (op, a, b))

    def call_closure(self, clo, args):
        _, node, env = clo
        env2 = dict(env)
        if len(node['params']) != len(args):
            raise Undecidable('closure arity')
        for p, a in zip(node['params'], args):
            if not self.bind(p, a, env2):
                raise Undecidable('closure parameter pattern')
        try:
            return self.ev(node['body'], env2)
        except _Return as r:
            return r.v

    def method(self, n, recv, args):
        name = n.get('def') or n.get('decl') or n.get('name')
        # the handful of std methods whose meaning is fixed
        if name == 'core::option::Option::<T>::map' and is_variant(recv) and len(args) == 1 and args[0][0] == 'C':
            if recv[1] == NONE:
                return recv
            if recv[1] == SOME:
                return V(SOME, self.call_closure(args[0], [recv[2][0]]))
        if name == 'core::option::Option::<T>::is_some' and is_variant(recv):
            return recv[1] == SOME
        if name == 'core::option::Option::<T>::is_none' and is_variant(recv):
            return recv[1] == NONE
        if name in ('alloc::string::String::is_empty', 'core::str::<impl str>::is_empty') and isinstance(recv, str):
            return len(recv) == 0
        if name in ('alloc::vec::Vec::<T, A>::is_empty', 'core::slice::<impl [T]>::is_empty') and isinstance(recv, list):
            return len(recv) == 0
        if name in ('alloc::vec::Vec::<T, A>::len', 'core::slice::<impl [T]>::len') and isinstance(recv, list):
            return len(recv)
        if name == 'alloc::vec::Vec::<T, A>::push' and isinstance(recv, list) and len(args) == 1:
            recv.append(args[0])
            return ('T', ())
        if name == 'core::str::<impl str>::chars' and isinstance(recv, str):
            return ('I', list(recv))
        decl = n.get('decl') or ''
        if isinstance(recv, tuple) and len(recv) == 2 and recv[0] == 'I':
            if decl == 'core::iter::traits::iterator::Iterator::count':
                return len(recv[1])
            if decl == 'core::iter::traits::iterator::Iterator::map' and len(args) == 1 and args[0][0] == 'C':
                return ('I', [self.call_closure(args[0], [x]) for x in recv[1]])
            if decl == 'core::iter::traits::iterator::Iterator::collect':
                return list(recv[1])
        if decl == 'core::iter::traits::collect::Extend::extend' and isinstance(recv, list) and len(args) == 1 and \
                isinstance(args[0], tuple) and args[0][0] == 'I':
            recv.extend(args[0][1])
            return ('T', ())
        return self.extern(name, recv, args, n)


def _has_opaque(f):
    if isinstance(f, tuple):
        if f and f[0] == 'O':
            return True
        return any(_has_opaque(x) for x in f)
    return False


def _one(F, pred, what):
    ks = [k for k in F.hir if pred(k)]
    if len(ks) != 1:
        raise AnchorMissing('%s: %d matches' % (what, len(ks)))
    return ks[0]


def _hloc(F, fn, node=None):
    h = F.hir[fn]
    return '%s:%s' % (h['file'], (node or {}).get('line') or h['line'])


# ---- conditional constant propagation over a MIR body (helper the engine lacks) ------------
_NAC = 'NAC'


def _const_of(o):
    if 'cp' in o or 'mv' in o:
        return None
    c = str(o.get('c'))
    if c == 'true':
        return 1
    if c == 'false':
        return 0
    m = re.match(r'^(-?\d+)_[iu](8|16|32|64|128|size)$', c)
    return int(m.group(1)) if m else _NAC


def _reachable_under(body, arg_consts, call_consts, site_consts=None, removed_edges=()):
    """Blocks reachable when the given argument locals hold the given integer constants and
    calls to the given functions (or the calls ending the given blocks: site_consts {block: value})
    return the given constants; removed_edges are never taken. Whole-local copies and constants
    are propagated, switches on known values follow only the matching edge, everything else is
    unknown (all edges)."""
    n = len(body.blocks)
    # locals that are ever mutably borrowed can change behind our back: never tracked
    escaped = {s['rv']['pl']['l'] for _, _, s in body.stmts()
               if s['k'] == 'assign' and s['rv']['k'] in ('ref', 'rawptr') and s['rv'].get('mut')}
    env_in = [None] * n            # None = not reached yet; else {local: const}, absent = unknown
    env_in[0] = {k: v for k, v in arg_consts.items() if k not in escaped}
    work = [0]
    reached = set()

    def val(env, o):
        c = _const_of(o)
        if c is not None:
            return c
        p = Q.operand_place(o)
        if p.get('p'):
            return _NAC
        return env.get(p['l'], _NAC)
    while work:
        b = work.pop()
        reached.add(b)
        env = dict(env_in[b])
        for s in body.blocks[b]['s']:
            if s['k'] == 'assign':
                l = s['lhs']['l']
                if s['lhs'].get('p'):
                    env.pop(l, None)
                    continue
                rv = s['rv']
                v = val(env, rv['o']) if rv['k'] == 'use' else _NAC
                if rv['k'] == 'unop' and rv.get('op') == 'Not' and rv.get('ta') == 'bool':
                    v = val(env, rv['o'])
                    v = (1 - v) if v in (0, 1) else _NAC
                if v == _NAC or l in escaped:
                    env.pop(l, None)
                else:
                    env[l] = v
            elif s['k'] == 'setdiscr':
                env.pop(s['lhs']['l'], None)
        t = body.blocks[b]['t']
        succs = body.succ(b)
        if t['k'] == 'call':
            l = t['dest']['l']
            env.pop(l, None)
            for nm in Q.callee_names(t):
                if nm in call_consts and not t['dest'].get('p') and l not in escaped:
                    env[l] = call_consts[nm]
            if site_consts and b in site_consts and not t['dest'].get('p') and l not in escaped:
                env[l] = site_consts[b]
        elif t['k'] == 'switch':
            v = val(env, t['d'])
            if v != _NAC:
                tgt = [x[1] for x in t['ts'] if x[0] == v]
                succs = [tgt[0]] if tgt else [t['else']]
        for s2 in succs:
            if (b, s2) in removed_edges:
                continue
            old = env_in[s2]
            if old is None:
                env_in[s2] = dict(env)
                work.append(s2)
            else:
                new = {k: v for k, v in old.items() if env.get(k, _NAC) == v}
                if new != old:
                    env_in[s2] = new
                    work.append(s2)
    return reached


# =====================================================================================
# C01.R1 - the field-splitting transducer
# =====================================================================================
LETTERS = ('N', 'W', 'X')                      # NonIfs, IfsWhitespace, IfsNonWhitespace
LETTER_CLASS = {'N': 'NonIfs', 'W': 'IfsWhitespace', 'X': 'IfsNonWhitespace'}
EXAMPLE_CHAR = {'N': 'a', 'W': ' ', 'X': '-'}  # with IFS=' -'


def posix_fields_declarative(w):
    """POSIX XCU 2.6.5 item 3, stated with a regular expression over the class string
    (no automaton): (a) IFS white space is ignored at the beginning and end of the input;
    (b) each non-white-space IFS character together with any adjacent IFS white space is
    one delimiter; (c) any other non-empty run of IFS white space is one delimiter.
    Delimiters terminate fields: text after the last delimiter is a field only if it is
    non-empty; an empty field arises exactly when a (b) delimiter has no field text
    before it."""
    lead = len(w) - len(w.lstrip('W'))
    body = w.strip('W')
    out = []
    start = 0
    for m in re.finditer(r'W*XW*|W+', body):
        out.append((lead + start, lead + m.start()))
        start = m.end()
    if start < len(body):
        out.append((lead + start, lead + len(body)))
    return out


class PosixSplitter:
    """Reference transducer written from the POSIX text (not from the implementation).

    It remembers (1) where the field being collected started, if one is open, and (2)
    whether the last thing seen was IFS white space that has already closed a field
    (such white space and a following non-white-space IFS character form ONE delimiter)."""

    def __init__(self):
        self.open_at = None          # start position of the open field
        self.closed_by_space = False
        self.pos = 0

    def config(self):
        return (self.open_at, self.closed_by_space, self.pos)

    @classmethod
    def at(cls, cfg):
        s = cls()
        s.open_at, s.closed_by_space, s.pos = cfg
        return s

    def feed(self, letter):
        out = []
        p = self.pos
        if letter == 'N':
            if self.open_at is None:
                self.open_at = p
            self.closed_by_space = False
        elif letter == 'W':
            if self.open_at is not None:          # 3c: white space delimits the open field
                out.append((self.open_at, p))
                self.open_at = None
                self.closed_by_space = True
            # otherwise: leading white space, or white space adjacent to a delimiter: ignored (3a, 3b)
        elif letter == 'X':
            if self.open_at is not None:          # 3b: delimits the open field
                out.append((self.open_at, p))
                self.open_at = None
            elif not self.closed_by_space:        # 3b: nothing before this delimiter: an empty field
                out.append((p, p))
            # else: the white space that closed the previous field is adjacent to this
            # character, they are one delimiter and the field is already delivered
            self.closed_by_space = False
        self.pos = p + 1
        return out

    def finish(self):
        out = []
        if self.open_at is not None:
            out.append((self.open_at, self.pos))
            self.open_at = None
        return out


def _ref_run(w):
    s = PosixSplitter()
    out = []
    for a in w:
        out += s.feed(a)
    return out + s.finish()


class _NeedInput(Exception):
    pass


class _RuleViolation(Exception):
    def __init__(self, key, msg, node=None):
        self.key = key
        self.msg = msg
        self.node = node


class RangesMachine:
    """<Ranges as Iterator>::next, evaluated from its HIR."""

    def __init__(self, F):
        self.F = F
        impl = [i for i in F.impls if i.get('self_adt') == RANGES and
                i.get('trait_def') == 'core::iter::traits::iterator::Iterator']
        if len(impl) != 1:
            raise AnchorMissing('impl Iterator for split::Ranges: %d matches' % len(impl))
        nexts = [it['def'] for it in impl[0]['items'] if it['def'].endswith('::next')]
        if len(nexts) != 1 or nexts[0] not in F.hir:
            raise AnchorMissing('Ranges::next not found')
        self.next_fn = nexts[0]
        self.ctor_fn = _one(F, lambda k: k.startswith(SPLIT + 'ranges::') and k.endswith('>::ranges'), 'Ifs::ranges')
        self.letters = []
        self.ended = False
        self.consumed = 0
        self.fields = set(F.adt(RANGES)['variants'][0]['fields'][i]['name']
                          for i in range(len(F.adt(RANGES)['variants'][0]['fields'])))

    # ---- the environment of the function
    def extern(self, name, recv, args, node):
        name = name or ''
        if name == 'core::iter::traits::iterator::Iterator::next' and recv == ('O', 'inner'):
            if self.ended:
                return V(NONE)
            if not self.letters:
                raise _NeedInput()
            self.consumed += 1
            return V(SOME, ('O', 'char', self.letters.pop(0)))
        if name == IFS + "::<'_>::classify_attr" and recv == ('O', 'ifs') and len(args) == 1 and \
                isinstance(args[0], tuple) and args[0][:2] == ('O', 'char'):
            return V('%s::%s' % (CLASS, LETTER_CLASS[args[0][2]]))
        if name.startswith(IFS) and name.endswith('::classify'):
            raise _RuleViolation('classifies-without-attributes',
                                 'the splitter classifies characters with Ifs::classify, ignoring quoting and origin: '
                                 'quoted and literal characters would delimit fields', node)
        if name.endswith('IntoIterator::into_iter'):
            return ('O', 'inner')
        if name == '<%s as core::default::Default>::default' % STATE:
            return Interp(self.F, self.extern).call_fn(name, [])
        raise Undecidable('%s: call of %s is not modelled' % (self.next_fn, name))

    def initial(self):
        it = Interp(self.F, self.extern)
        v = it.call_fn(self.ctor_fn, [('O', 'ifs'), ('O', 'chars')])
        if not isinstance(v, MutStruct) or v.path != RANGES:
            raise Undecidable('Ifs::ranges does not return a Ranges literal')
        if v.fields.get('inner') != ('O', 'inner') or v.fields.get('ifs') != ('O', 'ifs'):
            raise Undecidable('Ifs::ranges does not store its arguments in inner / ifs')
        return self._config(v)

    @staticmethod
    def _config(s):
        return (freeze(s.fields['state']), s.fields['next_index'])

    def _self(self, cfg):
        return MutStruct(RANGES, {'inner': ('O', 'inner'), 'ifs': ('O', 'ifs'),
                                  'state': _thaw(cfg[0]), 'next_index': cfg[1]})

    def _call(self, s):
        it = Interp(self.F, self.extern)
        r = it.call_fn(self.next_fn, [s])
        if is_variant(r, NONE):
            return None
        if is_variant(r, SOME) and isinstance(r[2][0], MutStruct) and r[2][0].path == 'core::ops::range::Range':
            f = r[2][0].fields
            return (f['start'], f['end'])
        raise Undecidable('Ranges::next returned %r' % (r,))

    def feed(self, cfg, letter):
        """-> (emitted ranges, new config)"""
        s = self._self(cfg)
        self.letters = [letter]
        self.ended = False
        self.consumed = 0
        out = []
        for _ in range(4):
            try:
                r = self._call(s)
            except _NeedInput:
                break
            if r is not None:
                out.append(r)
            if self.consumed or r is None:
                break
        else:
            raise Undecidable('Ranges::next yields repeatedly without consuming input')
        return out, self._config(s)

    def finish(self, cfg):
        """-> (emitted ranges, terminated: bool)"""
        s = self._self(cfg)
        self.letters = []
        self.ended = True
        out = []
        try:
            for _ in range(6):
                r = self._call(s)
                if r is None:
                    again = self._call(s)
                    return out, again is None
                out.append(r)
        except OutOfFuel:
            pass
        return out, False

    def run(self, w):
        cfg = self.initial()
        out = []
        for a in w:
            o, cfg = self.feed(cfg, a)
            out += o
        o, ok = self.finish(cfg)
        return out + o, ok


def _thaw(v):
    if isinstance(v, tuple) and v and v[0] == 'S':
        return MutStruct(v[1], {k: _thaw(x) for k, x in v[2]}, variant=True)
    if isinstance(v, tuple) and v and v[0] == 'V':
        return ('V', v[1], tuple(_thaw(x) for x in v[2]))
    return v


def _ints(v, acc):
    if isinstance(v, bool):
        return
    if isinstance(v, int):
        acc.append(v)
    elif isinstance(v, tuple):
        for x in v:
            _ints(x, acc)


def _map_ints(v, f):
    if isinstance(v, bool) or v is None:
        return v
    if isinstance(v, int):
        return f(v)
    if isinstance(v, tuple):
        return tuple(_map_ints(x, f) for x in v)
    return v


REGION_K = 6      # indices older than this many positions are only compared for equality
BASE = 1000


def _canon(pstate, pos):
    """Region abstraction: every index in the product state relative to the current
    position; indices more than REGION_K positions old keep only their mutual order."""
    acc = []
    _ints(pstate, acc)
    rel = sorted({x - pos for x in acc})
    if rel and rel[-1] > REGION_K:
        raise Undecidable('an index runs more than %d positions ahead of the input position' % REGION_K)
    old = [r for r in rel if r < -REGION_K]
    ren = {r: -REGION_K - 1 - i for i, r in enumerate(sorted(old, reverse=True))}
    return _map_ints(pstate, lambda x: ren.get(x - pos, x - pos))


def _settle(ib, rb):
    """Cancel the common prefix of the two output buffers; None if they contradict."""
    ib, rb = list(ib), list(rb)
    while ib and rb:
        if ib[0] != rb[0]:
            return None
        ib.pop(0)
        rb.pop(0)
    return tuple(ib), tuple(rb)


def _render(w, fields):
    s = ''.join(EXAMPLE_CHAR[a] for a in w)
    return '[' + ', '.join(repr(s[a:b]) if 0 <= a <= b <= len(s) else '%d..%d' % (a, b) for a, b in fields) + ']'


@RS.rule('C01.R1', 'K-TABLE', 'the field-splitting transducer Ranges::next is bisimilar to the POSIX 2.6.5 reference transducer')
def r1(cx):
    F = cx.F
    # the oracle is checked against the declarative statement first (a wrong oracle is an infrastructure error)
    n_oracle = 0
    frontier = ['']
    for depth in range(9):
        for w in frontier:
            n_oracle += 1
            if _ref_run(w) != posix_fields_declarative(w):
                raise AnchorMissing('C01.R1: reference transducer disagrees with the declarative POSIX statement on %r' % w)
        frontier = [w + a for w in frontier for a in LETTERS]
    cx.site('reference transducer == declarative POSIX 2.6.5 statement on all %d class sequences up to length 8' % n_oracle)

    M = RangesMachine(F)
    cx.fn(M.next_fn)
    cx.fn(M.ctor_fn)
    loc = _hloc(F, M.next_fn)
    try:
        init = M.initial()
    except _RuleViolation as v:
        cx.violation(M.ctor_fn, v.key, v.msg, loc=_hloc(F, M.ctor_fn))
        return
    cx.site('Ifs::ranges: initial configuration state=%s next_index=%s' % (_short(init[0]), init[1]))
    if init[1] != 0:
        cx.violation(M.ctor_fn, 'initial-index', 'field ranges are counted from %r instead of 0: every field is cut at the '
                     'wrong place' % (init[1],), loc=_hloc(F, M.ctor_fn))
        return

    # product exploration
    start = (init[0], init[1], PosixSplitter().config()[:2], (), ())     # impl state, impl index, ref state, buffers
    seen = {_canon(start, 0): ''}
    queue = deque([(_canon(start, 0), '')])
    bad = []
    n_trans = 0
    try:
        while queue:
            can, w = queue.popleft()
            if len(seen) > 4000:
                raise Undecidable('product of Ranges::next and the reference transducer does not close (over 4000 regions)')
            ps = _map_ints(can, lambda x: x + BASE)
            istate, iidx, rstate, ibuf, rbuf = ps
            # end of input from here
            o, term = M.finish((istate, iidx))
            ro = PosixSplitter.at(rstate + (BASE,)).finish()
            n_trans += 1
            if not term:
                bad.append((w, 'end', 'keeps yielding fields after the end of the input'))
                continue
            if tuple(ibuf) + tuple(o) != tuple(rbuf) + tuple(ro):
                bad.append((w, 'end', None))
                continue
            for a in LETTERS:
                n_trans += 1
                o, (s2, i2) = M.feed((istate, iidx), a)
                ref = PosixSplitter.at(rstate + (BASE,))
                ro = ref.feed(a)
                bufs = _settle(tuple(ibuf) + tuple(o), tuple(rbuf) + tuple(ro))
                if bufs is None:
                    bad.append((w + a, 'step', None))
                    continue
                if len(bufs[0]) > 3 or len(bufs[1]) > 3:
                    raise Undecidable('output lag between Ranges::next and the reference grows beyond 3 fields')
                nxt = _canon((s2, i2, ref.config()[:2], bufs[0], bufs[1]), BASE + 1)
                if nxt not in seen:
                    seen[nxt] = w + a
                    queue.append((nxt, w + a))
    except _RuleViolation as v:
        cx.violation(M.next_fn, v.key, v.msg, loc=_hloc(F, M.next_fn, v.node))
        return
    except Undecidable:
        if not bad:          # a divergence already found is reported; otherwise fail closed
            raise
    cx.cellcount(n_trans)
    cx.site('%d product regions closed under {NonIfs, IfsWhitespace, IfsNonWhitespace, end}; %d transitions compared'
            % (len(seen), n_trans))
    cx.sample({'function': M.next_fn, 'regions': len(seen), 'transitions': n_trans,
               'example': {'classes': 'WNWXWXN', 'fields': _render('WNWXWXN', M.run('WNWXWXN')[0])}})
    if len(seen) < 3 and not bad:
        raise AnchorMissing('C01.R1: product has only %d regions (the transducer was not exercised)' % len(seen))
    if bad:
        bad.sort(key=lambda b: (len(b[0]), b[0]))
        w, kind, why = bad[0]
        got, term = M.run(w)
        want = posix_fields_declarative(w)
        text = ''.join(EXAMPLE_CHAR[a] for a in w)
        cx.violation(M.next_fn, 'diverges:%s' % (w or 'empty'),
                     'class sequence [%s] (e.g. IFS=" -", unquoted expansion result %r): the splitter yields %s%s, POSIX 2.6.5 '
                     'prescribes %s (%d diverging product regions in total)'
                     % (', '.join(LETTER_CLASS[a] for a in w), text, _render(w, got),
                        '' if term else ' and never stops', _render(w, want), len(bad)), loc=loc)


def _short(v):
    if isinstance(v, tuple) and v and v[0] in ('V', 'S'):
        inner = ', '.join(_short(x) for x in v[2]) if v[0] == 'V' else ', '.join('%s: %s' % (k, _short(x)) for k, x in v[2])
        return v[1].split('::')[-1] + ('(%s)' % inner if inner else '')
    return repr(v)


# =====================================================================================
# C01.R2 - only unquoted soft-expansion characters delimit
# =====================================================================================
def _variants(F, adt):
    return [v['name'] for v in F.adt(adt)['variants']]


@RS.rule('C01.R2', 'K-GUARD', 'Ifs::classify_attr consults IFS only for unquoted, non-quoting SoftExpansion characters; Ifs::classify is the 2-test table')
def r2(cx):
    F = cx.F
    fn = IFS + "::<'_>::classify_attr"
    fn2 = IFS + "::<'_>::classify"
    F.hir_of(fn)
    F.hir_of(fn2)
    cx.fn(fn)
    cx.fn(fn2)
    origins = _variants(F, ORIGIN)
    if 'SoftExpansion' not in origins:
        raise AnchorMissing('C01.R2: Origin::SoftExpansion does not exist')
    fields = [f['name'] for f in F.adt(ATTRCHAR)['variants'][0]['fields']]
    if sorted(fields) != ['is_quoted', 'is_quoting', 'origin', 'value']:
        raise AnchorMissing('C01.R2: AttrChar has fields %s; the attribute domain of this rule is out of date' % fields)

    def extern(name, recv, args, node):
        if name == fn2 and recv == ('O', 'ifs'):
            return ('O', 'classified', freeze(args))
        raise Undecidable('classify_attr: call of %s is not modelled' % name)

    for org in origins:
        for quoted in (False, True):
            for quoting in (False, True):
                c = MutStruct(ATTRCHAR, {'value': ('O', 'the-char'), 'origin': V('%s::%s' % (ORIGIN, org)),
                                         'is_quoted': quoted, 'is_quoting': quoting})
                res = Interp(F, extern).call_fn(fn, [('O', 'ifs'), c])
                cx.cellcount(1)
                cell = '%s/%s/%s' % (org, 'quoted' if quoted else 'unquoted', 'quoting' if quoting else 'plain')
                may_split = org == 'SoftExpansion' and not quoted and not quoting
                if may_split:
                    if res != ('O', 'classified', (('O', 'the-char'),)):
                        cx.violation(fn, 'cell:' + cell, 'an unquoted character resulting from an expansion is classified as %s '
                                     'instead of by its IFS membership: expansion results are not split' % _short(freeze(res)),
                                     loc=_hloc(F, fn))
                else:
                    if freeze(res) != V(CLASS + '::NonIfs'):
                        what = 'by IFS membership' if isinstance(res, tuple) and res[:2] == ('O', 'classified') else 'as ' + _short(freeze(res))
                        cx.violation(fn, 'cell:' + cell, 'a character with origin=%s is_quoted=%s is_quoting=%s is classified %s: '
                                     'quoted or literal text would be split at IFS characters' % (org, quoted, quoting, what),
                                     loc=_hloc(F, fn))
    cx.sample({'function': fn, 'domain': '%d origins x quoted x quoting' % len(origins)})

    # classify: in IFS? white space?
    truth = {}

    def extern2(name, recv, args, node):
        if recv == ('O', 'ifs') and args == [('O', 'the-char')]:
            if name == IFS + "::<'_>::is_ifs":
                return truth['ifs']
            if name == IFS + "::<'_>::is_ifs_non_whitespace":
                return truth['nonws']
        raise Undecidable('classify: call of %s is not modelled' % name)
    for in_ifs in (False, True):
        for nonws in (False, True):
            if nonws and not in_ifs:
                continue        # non_whitespaces is a subsequence of chars
            truth = {'ifs': in_ifs, 'nonws': nonws}
            res = freeze(Interp(F, extern2).call_fn(fn2, [('O', 'ifs'), ('O', 'the-char')]))
            want = 'NonIfs' if not in_ifs else ('IfsNonWhitespace' if nonws else 'IfsWhitespace')
            cx.cellcount(1)
            if res != V('%s::%s' % (CLASS, want)):
                cx.violation(fn2, 'cell:%s/%s' % ('in-ifs' if in_ifs else 'not-in-ifs', 'non-whitespace' if nonws else 'whitespace'),
                             'a character that is %sin IFS and is %swhite space is classified %s, expected %s'
                             % ('' if in_ifs else 'not ', 'not ' if nonws else '', _short(res), want), loc=_hloc(F, fn2))
    # the two membership tests read the two fields they are named after
    for meth, field in (('is_ifs', 'chars'), ('is_ifs_non_whitespace', 'non_whitespaces')):
        h = F.hir_of(IFS + "::<'_>::" + meth)
        reads = {x['name'] for x in H.walk(h['body']) if x.get('k') == 'field' and x.get('adt') == IFS}
        contains = H.calls(h['body'], [re.compile(r'::contains$')])
        cx.site('%s reads Ifs.%s through %d contains call' % (meth, sorted(reads), len(contains)))
        if reads != {field} or len(contains) != 1:
            cx.violation(IFS + "::<'_>::" + meth, 'membership-source', '%s must test membership in Ifs.%s (reads %s)'
                         % (meth, field, sorted(reads)), loc=_hloc(F, IFS + "::<'_>::" + meth))
    # Ifs::new fills non_whitespaces from the same string through non_whitespaces()
    h = F.hir_of(IFS + "::<'a>::new")
    lit = [x for x in H.walk(h['body']) if x.get('k') == 'struct' and x['p'].get('def') == IFS]
    cx.require(len(lit) == 1, 'Ifs::new does not build one Ifs literal')
    fl = dict((f[0], f[1]) for f in lit[0]['fields'])
    arg = h['params'][0].get('id') if len(h['params']) == 1 else None
    ok = arg is not None and H.peel(fl.get('chars', {})).get('id') == arg
    nw = H.peel(fl.get('non_whitespaces', {}))
    ok = ok and nw.get('k') == 'call' and nw.get('def') == SPLIT + 'ifs::non_whitespaces' and \
        H.peel(nw['a'][0]).get('id') == arg
    cx.site('Ifs::new: chars = chars, non_whitespaces = non_whitespaces(chars)')
    if not ok:
        cx.violation(IFS + "::<'a>::new", 'ifs-fields', 'Ifs::new must store the IFS string and its non-white-space subsequence '
                     'computed from the same string', loc=_hloc(F, IFS + "::<'a>::new"))


# =====================================================================================
# C01.R3 - the ${x-w} family
# =====================================================================================
VALUE = 'yash_env::variable::value::Value'
SWITCH_LEX = "yash_syntax::parser::lex::modifier::<impl yash_syntax::parser::lex::core::WordLexer<'_, '_>>::switch"
SUFFIX_LEX = "yash_syntax::parser::lex::modifier::<impl yash_syntax::parser::lex::core::WordLexer<'_, '_>>::suffix_modifier"
ACTION = 'yash_syntax::syntax::SwitchAction'
CONDITION = 'yash_syntax::syntax::SwitchCondition'

# POSIX XCU 2.6.2: what ${parameter<colon?><symbol>word} yields, by the state of parameter.
# 'vacant' = unset, or (with colon) null. Result classes: VALUE = the parameter's own value
# (null when it is null/unset), WORD = expansion of word, ASSIGN = assign word then yield it,
# ERROR = write message and fail.
POSIX_SWITCH = {
    '-': {'vacant': 'WORD', 'occupied': 'VALUE'},
    '=': {'vacant': 'ASSIGN', 'occupied': 'VALUE'},
    '?': {'vacant': 'ERROR', 'occupied': 'VALUE'},
    '+': {'vacant': 'VALUE', 'occupied': 'WORD'},
}
# parameter states: name -> (value, is unset, is null). The last three rows are yash's
# documented array extension (an array with no element or one empty element counts as null).
PARAM_STATES = [
    ('unset', None, True, False),
    ('null', V(SOME, V(VALUE + '::Scalar', '')), False, True),
    ('non-null', V(SOME, V(VALUE + '::Scalar', 'x')), False, False),
    ('array()', V(SOME, V(VALUE + '::Array', [])), False, True),
    ("array('')", V(SOME, V(VALUE + '::Array', [''])), False, True),
    ("array('x')", V(SOME, V(VALUE + '::Array', ['x'])), False, False),
    ("array('','')", V(SOME, V(VALUE + '::Array', ['', ''])), False, False),
]


def _no_extern(what):
    def extern(name, recv, args, node):
        raise Undecidable('%s: call of %s is not modelled' % (what, name))
    return extern


def _async_block(h):
    """The user-written block of an `async fn` (inside the generated closure)."""
    b = h['body']
    if b.get('k') == 'closure':
        b = b['body']
    return b


def _params_by_type(h):
    """{type string: [local ids]} of the parameters of a fn as seen by its body (for an
    `async fn`, the locals the desugaring re-binds the parameters to)."""
    pids = {p_.get('id') for p_ in h['params'] if p_.get('k') == 'bind'}
    out = {}
    b = h['body']
    if b.get('k') == 'closure':
        for st in b['body'].get('stmts') or []:
            if st.get('k') == 'let' and st['pat'].get('k') == 'bind':
                init = H.peel(st.get('init') or {})
                if init.get('k') == 'local' and init.get('exp') and init['id'] in pids:
                    out.setdefault(st.get('ty'), []).append(st['pat']['id'])
    return out


def _arm_class(F, body):
    """Result class of one arm of switch::apply, from the calls it makes."""
    body_p = H.peel(body)
    if body_p.get('k') == 'path' and body_p.get('def') == NONE:
        return 'VALUE'
    calls = H.calls(body)
    names = [c.get('def') or c.get('decl') or '' for c in calls]
    wraps_some = any(c.get('ctor') and c['ctor'].get('def') == SOME for c in calls)
    if not wraps_some:
        return '?no-Some'
    if SW + 'assign' in names:
        return 'ASSIGN'
    if SW + 'vacant_expansion_error' in names:
        return 'ERROR' if any(c.get('ctor') and c['ctor'].get('def') == 'core::result::Result::Err' for c in calls) else '?error-not-Err'
    exp = [c for c in calls if c.get('k') == 'mcall' and (c.get('decl') or '').endswith('::Expand::expand')]
    if exp:
        recv = H.peel(exp[0]['recv'])
        on_word = recv.get('k') == 'field' and recv.get('name') == 'word' and recv.get('adt') == 'yash_syntax::syntax::Switch'
        attributed = any(x.get('k') == 'path' and x.get('def') == SW + 'attribute' for x in H.walk(body)) or SW + 'attribute' in names
        if on_word and attributed:
            return 'WORD'
        return '?word-not-attributed' if on_word else '?expands-something-else'
    return '?unknown'


def _r3_dispatch_by_shape(cx, F):
    """The dispatch clause read from the direct form `match symbol { '+' | '-' | '=' | '?' => self.switch(colon, symbol) .. }`.
    None if it holds, else (message, arm)."""
    hs = F.hir_of(SUFFIX_LEX)
    disp = None
    for m in H.matches_in(_async_block(hs)):
        for arm in m['arms']:
            cs = H.calls(arm['body'], [SWITCH_LEX])
            if cs:
                disp = (m, arm, cs[0])
    cx.require(disp is not None, 'suffix_modifier does not call switch()')
    vs = H.pat_variants(disp[1]['pat'])
    syms = sorted(v[1] for v in (vs or []) if isinstance(v, tuple) and v[0] == 'lit')
    cx.site('suffix_modifier dispatches %s to switch()' % syms)
    # its char argument is the matched symbol; its bool argument is the result of skipping a ':'
    args = [H.peel(a) for a in disp[2]['a']]
    sym_ok = any(a.get('k') == 'local' and a.get('id') == H.peel(disp[0]['scrut']).get('id') for a in args)
    colon_ok = False
    for a in args:
        if a.get('k') == 'local' and a.get('id') != H.peel(disp[0]['scrut']).get('id'):
            for x in H.walk(_async_block(hs)):
                if x.get('k') == 'block':
                    for st in x.get('stmts') or []:
                        if st.get('k') == 'let' and st['pat'].get('k') == 'bind' and st['pat']['id'] == a['id'] and st.get('ty') == 'bool':
                            lits_ = [y.get('v') for y in H.walk(st['init']) if y.get('k') == 'lit']
                            colon_ok = lits_ == [':'] and bool(H.calls(st['init'], [re.compile(r'::skip_if$')]))
    if syms != sorted('+-=?') or not sym_ok or not colon_ok:
        return ('found symbols %s, symbol passed: %s, colon flag passed: %s' % (syms, sym_ok, colon_ok), disp[1])
    return None


_R3_PROBES = '+-=?#%}:a0 /*!@$^&~|<>'


def _r3_dispatch_by_evaluation(cx, F):
    """The dispatch clause decided on the meaning: suffix_modifier is evaluated on a two-operation model of the lexer
    (skip_if(pred) consumes the next character if pred accepts it and tells whether it did; peek_char yields the next
    character or None at the end of input) for the inputs `c` and `:c`, c ranging over the four switch symbols, the trim
    symbols, a sample of other characters and the end of input. switch() must be called - once, with c and with
    "a ':' was consumed" - exactly when c is one of + - = ?. Returns '' if so, a message if not; raises Undecidable when
    the body uses something the model does not cover."""
    hs = F.hir_of(SUFFIX_LEX)
    cx.require(hs['body'].get('k') == 'closure', 'suffix_modifier is not an async fn')
    wrong = []
    n_switch = 0
    for prefix in ('', ':'):
        for c in list(_R3_PROBES) + [None]:
            if c == ':':
                continue
            text = prefix + (c or '')
            st = {'pos': 0, 'switch': [], 'other': []}

            def extern(name, recv, args, node, st=st, text=text):
                name = str(name)
                if recv != ('O', 'self'):
                    raise Undecidable('suffix_modifier: call of %s is not modelled' % name)
                if name.endswith('::skip_if') and len(args) == 1 and isinstance(args[0], tuple) and args[0][0] == 'C':
                    if st['pos'] < len(text) and it.call_closure(args[0], [text[st['pos']]]) is True:
                        st['pos'] += 1
                        return V('core::result::Result::Ok', True)
                    return V('core::result::Result::Ok', False)
                if name.endswith('::peek_char') and not args:
                    return V('core::result::Result::Ok', V(SOME, text[st['pos']]) if st['pos'] < len(text) else V(NONE))
                if name.endswith('::index') and not args:
                    return st['pos']
                if name == SWITCH_LEX:
                    if st['other']:
                        raise Undecidable('suffix_modifier: %s is called before switch()' % st['other'][0])
                    st['switch'].append((st['pos'], tuple(args)))
                    return ('O', 'switch()')
                st['other'].append(name)
                return ('O', name)
            it = Interp(F, extern)
            env = {p_['id']: ('O', p_.get('name')) for p_ in hs['params'] if p_.get('k') == 'bind'}
            try:
                it.ev(hs['body']['body'], env)
            except _Return:
                pass
            cx.cellcount(1)
            want = [(len(prefix), (prefix == ':', c))] if c is not None and c in '+-=?' else []
            got = [(pos, tuple(sorted(a, key=lambda x: isinstance(x, str)))) for pos, a in st['switch']]
            n_switch += len(got)
            if got != want:
                def show(l):
                    return ', '.join('switch%r with the lexer at offset %d' % (a, pos) for pos, a in l) or 'no call of switch'
                wrong.append('on input %r: %s (expected: %s)' % (text, show(got), show(want)))
    cx.site('suffix_modifier evaluated on %d inputs: switch(colon, symbol) is called for + - = ? only, with the symbol and '
            "with whether a ':' was skipped (%d calls)" % (2 * len(_R3_PROBES), n_switch))
    return '; '.join(wrong[:4])


@RS.rule('C01.R3', 'K-TABLE', '${x-w} ${x=w} ${x?w} ${x+w} with and without colon: lexer, Vacancy::of, ValueCondition::with and switch::apply compose to the POSIX 2.6.2 table')
def r3(cx):
    F = cx.F
    # (a) lexer: symbol -> action, colon -> condition, read backwards from the Switch literal
    h = F.hir_of(SWITCH_LEX)
    cx.fn(SWITCH_LEX)
    blk = _async_block(h)
    lits = [x for x in H.walk(blk) if x.get('k') == 'struct' and x['p'].get('def') == 'yash_syntax::syntax::Switch']
    cx.require(len(lits) == 1, 'WordLexer::switch does not build exactly one Switch literal')
    fl = {f[0]: H.peel(f[1]) for f in lits[0]['fields']}
    lets = {}
    for x in H.walk(blk):
        if x.get('k') == 'block':
            for st in x.get('stmts') or []:
                if st.get('k') == 'let' and st['pat'].get('k') == 'bind':
                    lets[st['pat']['id']] = st
    by_type = _params_by_type(h)
    for f in ('action', 'condition'):
        cx.require(fl.get(f, {}).get('k') == 'local' and fl[f]['id'] in lets, 'Switch.%s is not a let-bound local' % f)
    cx.require(len(by_type.get('char', [])) == 1 and len(by_type.get('bool', [])) == 1,
               'WordLexer::switch must take one char (the symbol) and one bool (the colon flag)')
    params = {'symbol': by_type['char'][0], 'colon': by_type['bool'][0]}
    it = Interp(F, _no_extern('WordLexer::switch'))
    lex_action = {}
    for sym in '+-=?':
        v = it.ev(lets[fl['action']['id']]['init'], {params['symbol']: sym})
        cx.require(is_variant(v) and v[1].startswith(ACTION + '::'), 'action for %r is %r' % (sym, v))
        lex_action[sym] = v
        cx.cellcount(1)
    lex_cond = {}
    for colon in (False, True):
        v = it.ev(lets[fl['condition']['id']]['init'], {params['colon']: colon})
        cx.require(is_variant(v) and v[1].startswith(CONDITION + '::'), 'condition for colon=%s is %r' % (colon, v))
        lex_cond[colon] = v
        cx.cellcount(1)
    if len({v[1] for v in lex_action.values()}) != 4 or len({v[1] for v in lex_cond.values()}) != 2:
        cx.violation(SWITCH_LEX, 'lexer-not-injective', 'two switch symbols (or both colon forms) are parsed to the same '
                     'action/condition: %s %s' % ({k: _short(v) for k, v in lex_action.items()},
                                                  {k: _short(v) for k, v in lex_cond.items()}), loc=_hloc(F, SWITCH_LEX))
    # the dispatcher sends exactly these four symbols, with the colon flag, to switch()
    cx.fn(SUFFIX_LEX)
    verdict = undecided = None
    try:
        verdict = _r3_dispatch_by_evaluation(cx, F)
    except Undecidable as e:
        undecided = e
    if verdict is None:
        # the dispatcher is written in a form the evaluator does not cover: read its shape; a shape that cannot be read
        # either is no verdict (fail closed), not a violation
        bad = _r3_dispatch_by_shape(cx, F)
        if bad is not None:
            raise Undecidable('suffix_modifier: %s; and its match is not in the direct form (%s)' % (undecided, bad[0]))
    elif verdict:
        cx.violation(SUFFIX_LEX, 'dispatch', 'the switch parser must receive exactly the symbols + - = ? together with the flag that '
                     "tells whether a ':' was skipped; %s" % verdict, loc=_hloc(F, SUFFIX_LEX))

    # (b) Vacancy::of, (c) ValueCondition::with, (d) arms of apply
    of_inner = SW + 'Vacancy::of::inner'
    with_inner = SW + 'ValueCondition::with::inner'
    for fn, inner in ((SW + 'Vacancy::of', of_inner), (SW + 'ValueCondition::with', with_inner)):
        hh = F.hir_of(fn)
        cs = H.calls(hh['body'], [inner])
        cx.require(len(cs) == 1, '%s does not delegate to its inner function' % fn)
        cx.fn(inner)
    apply_fn = SW + 'apply'
    ha = F.hir_of(apply_fn)
    cx.fn(apply_fn)
    ms = [m for m in H.matches_in(_async_block(ha)) if ACTION in (m.get('sty') or '') and 'ValueCondition' in (m.get('sty') or '')]
    cx.require(len(ms) == 1, 'switch::apply: match over (action, condition) not found')
    m = ms[0]
    # the scrutinee is (switch.action, ValueCondition::with(switch.condition, Vacancy::of(value)))
    sc = H.peel(m['scrut'])
    ok_scrut = sc.get('k') == 'tup' and len(sc['a']) == 2
    if ok_scrut:
        a0, a1 = H.peel(sc['a'][0]), H.peel(sc['a'][1])
        ok_scrut = a0.get('k') == 'field' and a0.get('name') == 'action' and a1.get('k') == 'local'
        if ok_scrut:
            cond_let = [s for x in H.walk(_async_block(ha)) if x.get('k') == 'block' for s in (x.get('stmts') or [])
                        if s.get('k') == 'let' and s['pat'].get('k') == 'bind' and s['pat']['id'] == a1['id']]
            ok_scrut = len(cond_let) == 1
            if ok_scrut:
                init = H.peel(cond_let[0]['init'])
                ok_scrut = init.get('k') == 'call' and init.get('def') == SW + 'ValueCondition::with'
                if ok_scrut:
                    c0, c1 = H.peel(init['a'][0]), H.peel(init['a'][1])
                    ok_scrut = (c0.get('k') == 'field' and c0.get('name') == 'condition' and c1.get('k') == 'call' and
                                c1.get('def') == SW + 'Vacancy::of' and
                                H.peel(c1['a'][0]).get('id') in _params_by_type(ha).get('core::option::Option<&%s>' % VALUE, []))
    cx.site('switch::apply matches (switch.action, ValueCondition::with(switch.condition, Vacancy::of(value)))')
    if not ok_scrut:
        cx.violation(apply_fn, 'scrutinee', 'switch::apply must decide on (switch.action, ValueCondition::with(switch.condition, '
                     'Vacancy::of(value)))', loc=_hloc(F, apply_fn, m))
        return
    pure = Interp(F, _no_extern('switch table'))
    table = {}
    for sym in '+-=?':
        for colon in (False, True):
            for name, value, unset, null in PARAM_STATES:
                vac = pure.call_fn(of_inner, [value if value is not None else V(NONE)])
                vc = pure.call_fn(with_inner, [lex_cond[colon], vac])
                arm_i = None
                for i, arm in enumerate(m['arms']):
                    if pure.bind(arm['pat'], ('T', (lex_action[sym], vc)), {}):
                        if arm.get('guard') is not None:
                            raise Undecidable('guarded arm in switch::apply')
                        arm_i = i
                        break
                cx.require(arm_i is not None, 'no arm of switch::apply matches (%s, %s)' % (_short(lex_action[sym]), _short(freeze(vc))))
                got = _arm_class(F, m['arms'][arm_i]['body'])
                vacant = unset or (colon and null)
                want = POSIX_SWITCH[sym]['vacant' if vacant else 'occupied']
                form = '${x%s%sw}' % (':' if colon else '', sym)
                table['%s %s' % (form, name)] = got
                cx.cellcount(1)
                if got != want:
                    cx.violation(apply_fn, 'cell:%s:%s' % (form, name),
                                 '%s with x %s yields %s, POSIX 2.6.2 prescribes %s (lexer: %s/%s, vacancy %s, condition %s, arm %d)'
                                 % (form, name, got, want, _short(lex_action[sym]), _short(lex_cond[colon]),
                                    _short(freeze(vac)), _short(freeze(vc)), arm_i), loc=_hloc(F, apply_fn, m['arms'][arm_i]))
    cx.sample({'table': {k: table[k] for k in list(table)[:8]}})
    # (e) the caller returns Some(result) as the whole expansion and continues with the value on None
    pe = "<%sparam::ParamRef<'_> as %sExpand<S>>::expand" % (INIT, INIT)
    hp = F.hir_of(pe)
    cx.fn(pe)
    ok = False
    for x in H.walk(_async_block(hp)):
        if x.get('k') == 'if' and x['c'].get('k') == 'letexpr' and H.calls(x['c']['init'], [apply_fn]):
            pat = x['c']['pat']
            rets = [r for r in H.walk(x['t']) if r.get('k') == 'ret']
            if pat.get('k') == 'ptuplestruct' and pat['p'].get('def') == SOME and pat['sub'][0].get('k') == 'bind' and \
                    len(rets) == 1 and H.peel(rets[0]['e']).get('id') == pat['sub'][0]['id'] and x.get('f') is None:
                ok = True
    cx.site('ParamRef::expand: `if let Some(result) = switch::apply(..).await { return result }`')
    if not ok:
        cx.violation(pe, 'apply-result', 'the result of switch::apply must be returned as the whole expansion when it is Some, and '
                     'the expansion must continue with the parameter value when it is None', loc=_hloc(F, pe))


# =====================================================================================
# C01.R4 - nounset
# =====================================================================================
PARAM_EXPAND = "<%sparam::ParamRef<'_> as %sExpand<S>>::expand" % (INIT, INIT)
MODIFIER = 'yash_syntax::syntax::Modifier'


def _call_behind(body, du, operand):
    """The call whose result an operand is a copy of / reference to, or None."""
    org = du.origin(operand)
    for _ in range(4):
        if org['k'] == 'call':
            return org['t']
        if org['k'] == 'ref':
            org = du.origin_place(org['pl'])
            continue
        break
    return None


def _agg_behind(body, du, operand):
    org = du.origin(operand)
    for _ in range(4):
        if org['k'] == 'agg':
            return org['rv']
        if org['k'] == 'ref':
            org = du.origin_place(org['pl'])
            continue
        break
    return None


def _is_modifier_place(body, du, pl):
    pl = du.deref_origin(pl)
    fs = [e for e in (pl.get('p') or []) if isinstance(e, dict) and 'f' in e]
    return bool(fs) and fs[-1]['f'] == 'modifier' and 'ParamRef' in (fs[-1].get('adt') or '')


@RS.rule('C01.R4', 'K-GUARD+K-ORDER', 'nounset: UnsetParameter only if the value is unset and the Unset option is off, only without a switch, and before length/trim')
def r4(cx):
    F = cx.F
    body = F.main_body(PARAM_EXPAND)
    cx.fn(body.fn)
    du = Q.DefUse(body)
    aggs = Q.find_aggregates(body, 'yash_semantics::expansion::ErrorCause', 'UnsetParameter')
    if not aggs:
        cx.site('%s: no ErrorCause::UnsetParameter constructed' % body.fn)
        cx.violation(PARAM_EXPAND, 'no-nounset-check', 'parameter expansion never reports an unset parameter: `set -u` has no effect',
                     loc=body.loc(body.d))
        return
    # every switch on the discriminant of self.modifier, with its per-edge variant labels
    mod_switch = {}
    for b in sorted(body.live_blocks()):
        ec = Q.edge_condition(F, body, du, b)
        if ec and ec[0]['k'] == 'discr' and MODIFIER in ec[0]['ty'] and _is_modifier_place(body, du, ec[0]['pl']):
            mod_switch[b] = ec[1]
    cx.require(mod_switch, 'no test of self.modifier in ParamRef::expand')
    switch_edges = {(b, tgt) for b, labels in mod_switch.items() for tgt, labs in labels.items()
                    if ('variant', 'Switch') in labs}
    is_none_blocks = set()
    option_tests = {}
    for b, j, s in aggs:
        cx.site('%s: ErrorCause::UnsetParameter at %s' % (body.fn, body.loc(s)))
        conds = Q.dominating_conditions(F, body, du, b)
        unset_value = option_off = False
        for org, lab, e in conds:
            if org['k'] != 'call':
                continue
            t = org['t']
            if Q.callee_is(t, ['core::option::Option::<T>::is_none']) and lab == ('bool', True):
                recv = du.origin(t['a'][0])
                # the receiver is the resolved value (the local produced by Expansion::into_owned)
                if recv['k'] == 'ref':
                    defs = du.defs.get(recv['pl']['l'], [])
                    if any(d[1] == 't' and Q.callee_is(d[2], [re.compile(r'::Expansion::<.*>::into_owned$')]) for d in defs):
                        unset_value = True
                        is_none_blocks.add(org['b'])
            want = None
            if Q.callee_is(t, [re.compile(r'^<yash_env::option::State as core::cmp::PartialEq>::eq$')]):
                want = True
            elif Q.callee_is(t, [re.compile(r'^<yash_env::option::State as core::cmp::PartialEq>::ne$')]):
                want = False
            if want is not None and lab == ('bool', want):
                sides = []
                for a in t['a']:
                    c = _call_behind(body, du, a)
                    g = _agg_behind(body, du, a)
                    if c is not None and Q.callee_is(c, ['yash_env::option::OptionSet::get']):
                        og = _agg_behind(body, du, c['a'][1])
                        sides.append('get(%s)' % (og.get('variant') if og else '?'))
                    elif g is not None and g.get('adt') == 'yash_env::option::State':
                        sides.append(g.get('variant'))
                if sorted(sides) == ['Off', 'get(Unset)']:
                    option_off = True
                    option_tests[org['b']] = 1 if want else 0
        # with a switch modifier (only the Switch edge of every test of self.modifier is taken) the error is unreachable
        non_switch_edges = {(sb, tgt) for sb, labels in mod_switch.items() for tgt, labs in labels.items()
                            if ('variant', 'Switch') not in labs}
        not_switch = b not in _reachable_under(body, {}, {}, removed_edges=non_switch_edges)
        if not unset_value:
            cx.violation(PARAM_EXPAND, 'unguarded:value-unset', 'the unset-parameter error is not restricted to value.is_none(): set '
                         'parameters would be rejected under nounset', loc=body.loc(s))
        if not option_off:
            cx.violation(PARAM_EXPAND, 'unguarded:option', 'the unset-parameter error is not restricted to options.get(Unset) == Off: '
                         'unset parameters would be an error without `set -u` (or never with it)', loc=body.loc(s))
        if not not_switch:
            cx.violation(PARAM_EXPAND, 'unguarded:switch', 'the unset-parameter error is also reachable for ${x-w} ${x=w} ${x?w} ${x+w}, '
                         'which POSIX exempts from nounset', loc=body.loc(s))
    # order: on every switch-less path the nounset test comes before the length / trim modifiers
    later = Q.find_calls(body, [INIT + 'param::to_length', INIT + 'param::trim::apply', VALUE + '::scalar'])
    later += [(b, t) for b, t in body.calls() if any(a.get('fn') == INIT + 'param::to_length' for a in t['a'])]
    cx.floor(len(later), 3, 'length/trim sites in ParamRef::expand')
    for b, t in later:
        cx.site('%s: %s at %s' % (body.fn, pp.callee(t).split('::')[-1], body.loc(t)))
    if is_none_blocks and option_tests and later:
        # conditional constant propagation: with no switch, the value unset and the option off, the expansion must
        # end in the error before any length / trim code runs (independent of how the condition is written)
        site = {b: 1 for b in is_none_blocks}
        site.update(option_tests)
        live = _reachable_under(body, {}, {}, site_consts=site, removed_edges=switch_edges)
        for b, t in later:
            if b in live:
                cx.violation(PARAM_EXPAND, 'modifier-before-nounset', 'a length or trim modifier is applied before the nounset test: '
                             '${#x} of an unset x yields 0 instead of an error under `set -u`', loc=body.loc(t))
                break
        if not any(b in live for b, j, s in aggs):
            cx.violation(PARAM_EXPAND, 'nounset-unreachable', 'the unset-parameter error cannot be reached for an unset value with '
                         'the option off', loc=body.loc(aggs[0][2]))
    cx.sample({'function': body.fn, 'modifier_tests': sorted(mod_switch), 'switch_edges_pruned': sorted(switch_edges)})


# =====================================================================================
# C01.R5 - attribute discipline of the producers of AttrChar
# =====================================================================================
T, Fa = 'true', 'false'
ANY = None
# root function (regex) -> what the module is, and the attribute triples (origin, is_quoted, is_quoting[, value])
# it may build; 'required' triples must all be present (a producer that stops marking is a violation too)
PRODUCERS = [
    (r'^yash_semantics::expansion::initial::param::(?!switch::|trim::|resolve::)', 'a parameter expansion result',
     [('SoftExpansion', Fa, Fa)]),
    (r'^yash_semantics::expansion::initial::arith::', 'an arithmetic expansion result',
     [('SoftExpansion', Fa, Fa)]),
    (r'^yash_semantics::expansion::initial::command_subst::', 'a command substitution result',
     [('SoftExpansion', Fa, Fa)]),
    (r'^yash_semantics::expansion::phrase::', 'the separator inserted when joining $*',
     [('SoftExpansion', Fa, Fa)]),
    (r'^yash_semantics::expansion::initial::tilde::', 'a tilde expansion result (never split, never a pattern)',
     [('HardExpansion', Fa, Fa), ('HardExpansion', Fa, T, "'\"'")]),
    (r'^yash_semantics::expansion::initial::word::', 'quoted text and quotation marks of a word',
     [('Literal', T, Fa),                                   # content of '...' and $'...'
      ('Literal', Fa, T, "'\\''"), ('Literal', Fa, T, "'$'"), ('Literal', Fa, T, "'\"'"),   # the marks themselves
      (('copy', 'origin'), T, ('copy', 'is_quoting'), ('copy', 'value'))]),                  # a character inside "..."
    (r'^yash_semantics::expansion::initial::text::', 'a literal character / a backslash escape',
     [('Literal', Fa, Fa), ('Literal', Fa, T, "'\\\\'"), ('Literal', T, Fa)]),
    (r'^yash_builtin::read::input::', 'a character of the line read by `read`',
     [('SoftExpansion', T, Fa), ('SoftExpansion', Fa, T), ('SoftExpansion', Fa, Fa)]),
]
# forms a producer MAY use (accepted, not demanded): the join separator rebuilt with struct-update syntax, its quoting computed from
# the adjoining fields (fix a6e85c3, decided by C04.R4b)
OPTIONAL_KINDS = {
    r'^yash_semantics::expansion::phrase::': [(('copy', 'origin'), 'var', ('copy', 'is_quoting'), ('copy', 'value'))],
}
# the only code allowed to change attributes after construction: function -> {field: written value}
ATTR_WRITERS = {
    'yash_semantics::expansion::initial::word::double_quote::quote_field': {'is_quoted': T},
    'yash_semantics::expansion::attr_fnmatch::apply_escapes': {'is_quoted': T, 'is_quoting': T},
    'yash_semantics::expansion::initial::param::switch::attribute': {'origin': 'SoftExpansion'},
    # fix a6e85c3: the separator joining two quoted fields ("$@") is quoted; the value is computed from the
    # is_quoting marks of the adjoining fields (decided by C04.R4b)
    'yash_semantics::expansion::phrase::Phrase::ifs_join': {'is_quoted': 'var'},
}


def _attr_operand(body, du, o):
    org = du.origin(o)
    if org['k'] == 'const':
        return str(org['o'].get('c'))
    if org['k'] == 'agg' and org['rv'].get('adt') == ORIGIN:
        return org['rv'].get('variant')
    if org['k'] == 'place':
        fs = [e for e in (org['pl'].get('p') or []) if isinstance(e, dict) and 'f' in e]
        if fs and fs[-1].get('adt') == ATTRCHAR:
            return ('copy', fs[-1]['f'])
    return 'var'


def _match_table(F, fn, adt):
    """Like hirq.fn_match_table, but also for scrutinees of type `&mut Adt` (helper that the
    engine lacks): {variant short name: (arm index, arm body)} of the single match over adt."""
    h = F.hir_of(fn)
    ms = [m for m in H.matches_in(h['body']) if re.sub(r'^&(mut )?', '', (m.get('sty') or '').strip()) == adt]
    if len(ms) != 1:
        raise AnchorMissing('%s: expected one match over %s, found %d' % (fn, adt, len(ms)))
    out = {}
    for v in H.enum_variants(F, adt):
        i, arm = H.first_matching_arm(ms[0], ('variant', v, None))
        if i is None:
            raise AnchorMissing('%s: match over %s not decidable for %s (%s)' % (fn, adt, v, arm))
        out[H.short(v)] = (i, arm['body'])
    return out, ms[0]


@RS.rule('C01.R5', 'K-EFFECT', 'every producer of attributed characters uses the attributes of its module; attributes are changed afterwards only by the reviewed writers')
def r5(cx):
    F = cx.F
    fields = [f['name'] for f in F.adt(ATTRCHAR)['variants'][0]['fields']]
    cx.require(sorted(fields) == ['is_quoted', 'is_quoting', 'origin', 'value'], 'AttrChar fields changed: %s' % fields)
    ix = {f: i for i, f in enumerate(fields)}
    found = {}
    for fn, body in F.bodies.items():
        aggs = Q.find_aggregates(body, ATTRCHAR)
        if not aggs:
            continue
        du = Q.DefUse(body)
        for b, j, s in aggs:
            ops = s['rv']['ops']
            d = {f: _attr_operand(body, du, ops[ix[f]]) for f in fields}
            found.setdefault(body.root, []).append((body, s, d))
    n = 0
    for root, lst in sorted(found.items()):
        spec = [p for p in PRODUCERS if re.search(p[0], root)]
        for body, s, d in lst:
            n += 1
            triple = (d['origin'], d['is_quoted'], d['is_quoting'])
            cx.site('%s: AttrChar{origin: %s, is_quoted: %s, is_quoting: %s, value: %s} at %s'
                    % (body.fn, d['origin'], d['is_quoted'], d['is_quoting'], d['value'], body.loc(s)))
            cx.fn(body.fn)
            if not spec:
                cx.violation(root, 'unreviewed-producer:%s/%s/%s' % triple, 'attributed characters are built in a function that is '
                             'not in the reviewed producer inventory (origin=%s is_quoted=%s is_quoting=%s): whether they are split, '
                             'globbed and quote-removed correctly is not established' % triple, loc=body.loc(s))
                continue
            ok = False
            for allowed in list(spec[0][2]) + OPTIONAL_KINDS.get(spec[0][0], []):
                if allowed[:3] == triple and (len(allowed) == 3 or allowed[3] == d['value']):
                    ok = True
            if not ok:
                cx.violation(root, 'attributes:%s/%s/%s' % triple,
                             '%s must be built with %s, found origin=%s is_quoted=%s is_quoting=%s value=%s: it will be %s'
                             % (spec[0][1], ' or '.join('origin=%s is_quoted=%s is_quoting=%s' % a[:3] for a in spec[0][2]),
                                d['origin'], d['is_quoted'], d['is_quoting'], d['value'], _consequence(spec[0][2][0], triple)),
                             loc=body.loc(s))
    # every reviewed producer still produces all its kinds
    for pat, what, allowed in PRODUCERS:
        roots = [r for r in found if re.search(pat, r)]
        have = {(d['origin'], d['is_quoted'], d['is_quoting']) for r in roots for _, _, d in found[r]}
        for a in allowed:
            if a[:3] not in have:
                fnname = pat.strip('^$').replace('\\', '')
                exists = any(re.search(pat, r) for r in F.by_root)
                if not exists:
                    raise AnchorMissing('C01.R5: producer %s does not exist any more' % fnname)
                cx.violation(fnname, 'missing:%s/%s/%s' % a[:3], '%s no longer builds characters with origin=%s is_quoted=%s '
                             'is_quoting=%s' % ((what,) + tuple(a[:3])), loc=None)
    cx.floor(n, 15, 'AttrChar aggregates in production code')
    # writers of attributes after construction
    nw = 0
    for fn, body in F.bodies.items():
        ws = Q.field_writes(body, ATTRCHAR)
        if not ws:
            continue
        du = Q.DefUse(body)
        for b, j, s, kind, f in ws:
            if f == 'value' and kind == 'assign':
                pass
            nw += 1
            val = _attr_operand(body, du, s['rv']['o']) if (kind == 'assign' and s['rv']['k'] == 'use') else kind
            cx.site('%s: writes AttrChar.%s = %s at %s' % (body.fn, f, val, body.loc(s)))
            allowed = ATTR_WRITERS.get(body.root, {})
            if f not in allowed or allowed[f] != val:
                cx.violation(body.root, 'writer:%s' % f, 'AttrChar.%s is changed to %s after construction outside the reviewed '
                             'writers (double_quote, apply_escapes, switch::attribute, ifs_join separator)' % (f, val), loc=body.loc(s))
    cx.floor(nw, 4, 'attribute writes after construction')
    # double_quote marks every character of every shape of phrase: decided on the meaning (the evaluation of R11: whatever
    # the loops, helpers and adapters are, every character of a Char / Field / Full phrase comes back with is_quoted set)
    dq = DOUBLE_QUOTE
    try:
        failures = _r11_evaluate(cx, F)
    except Undecidable as e:
        # double_quote uses something the evaluator does not model: read the direct form; if that cannot be read either
        # there is no verdict (fail closed), not a violation
        bad = _r5_double_quote_by_shape(cx, F)
        if bad:
            raise Undecidable('%s; and double_quote is not in the direct form (%s)' % (e, '; '.join(bad)))
        return
    cx.site('double_quote evaluated on Char, Field and Full phrases: every character comes back with is_quoted = true')
    for shape, fs in sorted(failures.items()):
        unq = [f for f in fs if f[3] == 'unquoted']
        if unq:
            cx.violation(dq, 'phrase-shape:%s' % shape, 'a Phrase::%s inside double quotes is not marked as quoted: its characters '
                         'would be split and globbed (double_quote(%s): %s; result %s)' % (shape, unq[0][0], unq[0][1], unq[0][2]),
                         loc=_hloc(F, dq))


def _r5_double_quote_by_shape(cx, F):
    """The double_quote clause of R5 read from the direct form (one arm per shape of phrase that calls quote_field or builds
    the character; quote_field writes is_quoted inside its loop over iter_mut). List of what does not hold."""
    out = []
    dq = DOUBLE_QUOTE
    table, m = _match_table(F, dq, 'yash_semantics::expansion::phrase::Phrase')
    qf = dq + '::quote_field'
    for variant, (i, arm) in sorted(table.items()):
        uses_qf = any((x.get('k') in ('call', 'mcall') and (x.get('def') == qf)) or (x.get('k') == 'path' and x.get('def') == qf)
                      for x in H.walk(arm))
        builds = [x for x in H.walk(arm) if x.get('k') == 'struct' and x['p'].get('def') == ATTRCHAR]
        cx.cellcount(1)
        if not uses_qf and not builds:
            out.append('the Phrase::%s arm neither calls quote_field nor builds the character' % variant)
    # quote_field: the write of is_quoted happens for every element (inside the loop over iter_mut of the whole vector)
    qb = F.body(qf)
    cx.fn(qf)
    ws = [w for w in Q.field_writes(qb, ATTRCHAR, 'is_quoted')]
    its = Q.find_calls(qb, [re.compile(r'::iter_mut$')])
    nxt = Q.find_calls(qb, [re.compile(r'Iterator.*::next$'), '*::Iterator::next'])
    good = bool(ws and its and nxt) and all(any(qb.dominates(nb, w[0]) and nb in qb.reachable(w[0]) for nb, _ in nxt) for w in ws)
    cx.site('%s: is_quoted = true inside the loop over chars.iter_mut()' % qf)
    if not good:
        out.append('quote_field does not write is_quoted inside a loop over iter_mut()')
    return out


def _consequence(expected, got):
    out = []
    if expected[0] == 'SoftExpansion' and got[0] != 'SoftExpansion':
        out.append('exempt from field splitting')
    if expected[0] != 'SoftExpansion' and got[0] == 'SoftExpansion':
        out.append('subject to field splitting')
    if expected[1] == T and got[1] != T:
        out.append('treated as unquoted (split, globbed)')
    if expected[1] == Fa and got[1] == T:
        out.append('treated as quoted (never split or matched as a pattern)')
    if expected[2] == T and got[2] != T:
        out.append('kept by quote removal')
    if expected[2] == Fa and got[2] == T:
        out.append('deleted by quote removal')
    if expected[0] == 'HardExpansion' and got[0] != 'HardExpansion':
        out.append('subject to pathname expansion')
    return ', '.join(out) or 'handled differently by splitting, globbing or quote removal'


# =====================================================================================
# C01.R6 - order of the expansion steps
# =====================================================================================
EXP = 'yash_semantics::expansion::'
EXPAND_CALL = ['*::Expand::expand', re.compile(r'initial::Expand<S>.*>::expand$')]
SPLIT_INTO = [SPLIT + 'split_into', SPLIT + 'split']
GLOB = [EXP + 'glob::glob']
RANGES_CALLS = [re.compile(r'^' + re.escape(SPLIT) + r'ranges::<impl .*>::ranges$')]
IFS_JOIN = [EXP + 'phrase::Phrase::ifs_join']
SKIP_QUOTES = ['yash_env::semantics::expansion::quote_removal::skip_quotes',
               'yash_env::semantics::expansion::quote_removal::remove_quotes']
STRIP = ['*::Strip::strip', re.compile(r'attr_strip::Strip.*::strip$')]
RQS = [ATTR + 'AttrField::remove_quotes_and_strip']


def _arg_local_behind_ref(du, operand):
    org = du.origin(operand)
    for _ in range(4):
        if org['k'] == 'ref':
            if not org['pl'].get('p'):
                return org['pl']['l']
            org = du.origin_place({'l': org['pl']['l']}) if org['pl'].get('p') == ['*'] else {'k': 'x'}
            continue
        break
    return None


def _chain(cx, F, fn, steps, forbidden):
    """steps: [(label, patterns)] must each occur and each be dominated by the previous one;
    forbidden patterns must not be called anywhere in the logical function."""
    body = F.main_body(fn)
    cx.fn(body.fn)
    prev = None
    for label, pats in steps:
        cs = Q.find_calls(body, pats)
        cx.site('%s: %s x%d%s' % (fn, label, len(cs), (' at ' + body.loc(cs[0][1])) if cs else ''))
        if not cs:
            cx.violation(fn, 'missing-step:%s' % label, '%s does not perform %s' % (fn.split('::')[-1], label), loc=body.loc(body.d))
            return
        if prev is not None:
            for b, t in Q.check_dominated(body, prev[1], cs):
                cx.violation(fn, 'order:%s<%s' % (prev[0], label), '%s can run before %s in %s' % (label, prev[0], fn.split('::')[-1]),
                             loc=body.loc(t))
        prev = (label, cs)
    for lb in F.logical(fn):
        for label, pats in forbidden:
            for b, t in Q.find_calls(lb, pats):
                cx.violation(fn, 'forbidden-step:%s' % label, '%s performs %s: a word expanded to a single field (assignment, '
                             'redirection operand, here-document, case subject) must not be split or globbed'
                             % (fn.split('::')[-1], label), loc=lb.loc(t))


@RS.rule('C01.R6', 'K-ORDER', 'expansion < field splitting (with $IFS) < pathname expansion in expand_word_multiple; single-field entry points join and remove quotes last, never split or glob')
def r6(cx):
    F = cx.F
    fn = EXP + 'expand_word_multiple'
    # a step moved into a private helper of the module (e.g. the per-field pathname expansion `glob_field_into(..)?` called in the
    # loop) is seen in place: the helper's blocks are inlined at the call, arguments / results flow through plain assignments
    body = F.inlined(fn)
    cx.fn(body.fn)
    for h in getattr(body, 'inlined_from', []):
        cx.fn(h)
    du = Q.DefUse(body)
    ex = Q.find_calls(body, EXPAND_CALL)
    sp = Q.find_calls(body, SPLIT_INTO)
    gl = Q.find_calls(body, GLOB)
    for lab, cs in (('initial expansion', ex), ('split_into', sp), ('glob', gl)):
        cx.site('%s: %s x%d%s' % (fn, lab, len(cs), (' at ' + body.loc(cs[0][1])) if cs else ''))
    # splitting written as an iterator adaptor (`.map(|chars| ..split_into..)`): the call sits in a closure of this function.
    # The order is then decided on the block that creates the closure; the data flow through the closure is not followed.
    closure_form = False
    if not sp and len(ex) == 1 and len(gl) == 1:
        for lb in F.logical(fn):
            if lb.fn != body.fn and Q.find_calls(lb, SPLIT_INTO):
                made = [(b, j, s_) for b, j, s_ in body.stmts() if s_['k'] == 'assign' and s_['rv']['k'] == 'agg'
                        and s_['rv'].get('def') == lb.fn]
                if len(made) == 1:
                    closure_form = True
                    cb = made[0][0]
                    (eb, et), (gb, gt) = ex[0], gl[0]
                    cx.site('%s: split_into inside closure %s created at %s' % (fn, lb.fn, body.loc(made[0][2])))
                    if not body.dominates(eb, cb):
                        cx.violation(fn, 'order:expand<split', 'field splitting can run before the initial expansion', loc=body.loc(made[0][2]))
                    if cb in body.reachable(gb) and not body.dominates(cb, gb):
                        cx.violation(fn, 'order:split<glob', 'field splitting can run after pathname expansion has started',
                                     loc=body.loc(made[0][2]))
                    if not body.dominates(cb, gb):
                        cx.violation(fn, 'order:split<glob', 'pathname expansion is not preceded by field splitting', loc=body.loc(gt))
    missing = [] if closure_form else \
        [lab for lab, cs in (('initial expansion', ex), ('field splitting', sp), ('pathname expansion', gl)) if len(cs) != 1]
    if missing:
        for lab in missing:
            cx.violation(fn, 'missing-step:%s' % lab, 'expand_word_multiple must perform %s exactly once per word' % lab,
                         loc=body.loc(body.d))
        return
    if closure_form:
        return _r6_rest(cx, F, fn, body)
    (eb, et), (sb, st), (gb, gt) = ex[0], sp[0], gl[0]
    if not body.dominates(eb, sb) or not body.dominates(eb, gb):
        cx.violation(fn, 'order:expand<split', 'field splitting or pathname expansion can run before the initial expansion',
                     loc=body.loc(st))
    if sb in body.reachable(gb):
        cx.violation(fn, 'order:split<glob', 'field splitting can run after pathname expansion has started: matched file names '
                     'containing IFS characters would be split', loc=body.loc(st))
    if gb in body.reachable(sb) and not body.dominates(eb, gb):
        pass
    # data flow: split_into(field <- phrase <- expand, ifs <- $IFS, out), glob(field <- out), results <- glob
    t_phrase = Q.forward_taint(body, {et['dest']['l']})
    if Q.operand_local(st['a'][0]) not in t_phrase:
        cx.violation(fn, 'flow:expand->split', 'the field given to split_into does not come from the initial expansion', loc=body.loc(st))
    out_local = _arg_local_behind_ref(du, st['a'][2])
    cx.require(out_local is not None, 'the output collection of split_into is not a local')
    t_split = Q.forward_taint(body, {out_local})
    if Q.operand_local(gt['a'][1]) not in t_split:
        cx.violation(fn, 'flow:split->glob', 'pathname expansion is not applied to the fields produced by field splitting',
                     loc=body.loc(gt))
    t_glob = Q.forward_taint(body, {gt['dest']['l']})
    ext = Q.find_calls(body, ['*::Extend::extend'])
    cx.floor(len(ext), 1, 'results.extend sites')
    for b, t in ext:
        cx.site('%s: results.extend at %s' % (fn, body.loc(t)))
        if Q.operand_local(t['a'][1]) not in t_glob:
            cx.violation(fn, 'flow:glob->results', 'a field is delivered that is not a result of pathname expansion / quote removal',
                         loc=body.loc(t))
    ifs_const = re.compile(r'^yash_env::variable::(constants::)?IFS$')
    # (a lookup moved into a private helper of the module is seen through: locals of the function keep their numbers when inlining)
    ib = body
    seeds = {t['dest']['l'] for b, t in ib.calls() if any(ifs_const.match(a.get('cdef') or '') for a in t['a'])}
    seeds |= {s_['lhs']['l'] for b, j, s_ in ib.stmts() if s_['k'] == 'assign' and
              any(ifs_const.match(o.get('cdef') or '') for o in Q.rvalue_operands(s_['rv']))}
    cx.site('%s: the name constant IFS is used by %d local(s)' % (fn, len(seeds)))
    t_ifs = Q.forward_taint(ib, seeds) if seeds else set()
    if Q.operand_local(st['a'][1]) not in t_ifs:
        cx.violation(fn, 'flow:IFS->split', 'field splitting does not use the value of $IFS', loc=body.loc(st))
    _r6_rest(cx, F, fn, body)


def _r6_rest(cx, F, fn, body):
    # an unset IFS means the default separators: Ifs::default() is Ifs::new(IFS_INITIAL_VALUE)
    hd = F.hir_of("<%s<'_> as core::default::Default>::default" % IFS)
    c_ok = any(x.get('k') == 'path' and x.get('def') == IFS + "::<'a>::DEFAULT" for x in H.walk(hd['body'])) and \
        bool(H.calls(hd['body'], [IFS + "::<'a>::new"]))
    dflt = H.const_eval(F.hir_of(IFS + "::<'a>::DEFAULT")['body'])
    init = None
    if isinstance(dflt, tuple) and dflt[0] == 'path' and dflt[1] in F.hir:
        init = H.const_eval(F.hir[dflt[1]]['body'])
    cx.site('Ifs::default() = Ifs::new(%r)' % (init,))
    if not c_ok or init != ' \t\n':
        cx.violation("<%s<'_> as core::default::Default>::default" % IFS, 'default-ifs', 'with IFS unset, fields must be split at '
                     'space, tab and newline; the default separators are %r' % (init,), loc=_hloc(F, IFS + "::<'a>::DEFAULT"))
    # split_into cuts the field at the ranges computed by Ifs::ranges over its own characters
    sbody = F.body(SPLIT + 'split_into')
    cx.fn(sbody.fn)
    rc = Q.find_calls(sbody, RANGES_CALLS)
    cx.site('%s: Ifs::ranges x%d' % (sbody.fn, len(rc)))
    if len(rc) != 1:
        cx.violation(sbody.fn, 'no-ranges', 'split_into does not obtain the field boundaries from Ifs::ranges', loc=sbody.loc(sbody.d))

    # single-field entry points
    no_multi = [('field splitting', SPLIT_INTO + RANGES_CALLS), ('pathname expansion', GLOB)]
    _chain(cx, F, EXP + 'expand_word_attr', [('initial expansion', EXPAND_CALL), ('ifs_join', IFS_JOIN)], no_multi)
    _chain(cx, F, EXP + 'expand_word', [('expand_word_attr', [EXP + 'expand_word_attr']), ('quote removal', RQS)], no_multi)
    _chain(cx, F, EXP + 'expand_text', [('initial expansion', EXPAND_CALL), ('ifs_join', IFS_JOIN), ('quote removal', SKIP_QUOTES),
                                        ('attribute stripping', STRIP)], no_multi)
    _chain(cx, F, ATTR + 'AttrField::remove_quotes_and_strip', [('quote removal', SKIP_QUOTES), ('attribute stripping', STRIP)], [])

    # quote removal deletes exactly the quoting characters
    origins = _variants(F, ORIGIN)
    for qfn in SKIP_QUOTES:
        h = F.hir_of(qfn)
        cx.fn(qfn)
        clos = [x for x in H.walk(h['body']) if x.get('k') == 'closure']
        filt = H.calls(h['body'], [re.compile(r'Iterator::filter$'), re.compile(r'Vec::<T, A>::retain$')])
        cx.require(len(clos) == 1 and len(filt) == 1, '%s is not a single filter/retain with one closure' % qfn)
        it = Interp(F, _no_extern(qfn))
        for org in origins:
            for quoted in (False, True):
                for quoting in (False, True):
                    c = MutStruct(ATTRCHAR, {'value': ('O', 'ch'), 'origin': V('%s::%s' % (ORIGIN, org)),
                                             'is_quoted': quoted, 'is_quoting': quoting})
                    keep = it.call_closure(('C', clos[0], {}), [c])
                    cx.cellcount(1)
                    if keep is not (not quoting):
                        cx.violation(qfn, 'cell:%s/%s/%s' % (org, quoted, quoting), 'quote removal %s a character with origin=%s '
                                     'is_quoted=%s is_quoting=%s' % ('keeps' if keep else 'deletes', org, quoted, quoting),
                                     loc=_hloc(F, qfn))


# =====================================================================================
# C01.R7 - the read built-in shares the splitter
# =====================================================================================
READ_ASSIGN = 'yash_builtin::read::assigning::assign'
RANGES_NEXT = "<%s<'_, I> as core::iter::traits::iterator::Iterator>::next" % RANGES
RANGES_CTOR = SPLIT + "ranges::<impl %s<'a>>::ranges" % IFS
# splitting primitive -> the only functions that may call it
SPLITTER_CALLERS = {
    RANGES_CTOR: {READ_ASSIGN, SPLIT + 'split_into'},
    IFS + "::<'_>::classify_attr": {RANGES_NEXT, READ_ASSIGN},
    IFS + "::<'_>::classify": {IFS + "::<'_>::classify_attr"},
    IFS + "::<'_>::is_ifs": {IFS + "::<'_>::classify"},
    IFS + "::<'_>::is_ifs_non_whitespace": {IFS + "::<'_>::classify"},
    SPLIT + 'split_into': {SPLIT + 'split', EXP + 'expand_word_multiple'},
}
REQUIRED_CALLERS = {
    RANGES_CTOR: {READ_ASSIGN, SPLIT + 'split_into'},
    IFS + "::<'_>::classify_attr": {RANGES_NEXT, READ_ASSIGN},
}


@RS.rule('C01.R7', 'K-CALLERS', 'the read built-in splits its line with Ifs::ranges / classify_attr under $IFS; nobody else classifies or splits on their own')
def r7(cx):
    F = cx.F
    for prim in SPLITTER_CALLERS:
        cx.require(prim in F.bodies, 'splitting primitive %s not found' % prim)
    got = {}
    for body, blk, t in F.callers_of(lambda names, t: any(n in SPLITTER_CALLERS for n in names)):
        for n in Q.callee_names(t):
            if n in SPLITTER_CALLERS:
                got.setdefault(n, {}).setdefault(body.root, (body, t))
    # fn items passed as values (e.g. `.map(Ifs::classify)`) count as uses too
    for body in F.bodies.values():
        for b, t in body.calls():
            for a in t['a']:
                if a.get('fn') in SPLITTER_CALLERS:
                    got.setdefault(a['fn'], {}).setdefault(body.root, (body, t))
    for prim, users in sorted(got.items()):
        for root, (body, t) in sorted(users.items()):
            cx.site('%s is used by %s at %s' % (prim.split('::')[-1], root, body.loc(t)))
            if root not in SPLITTER_CALLERS[prim]:
                cx.violation(root, 'unreviewed-splitter:%s' % prim.split('::')[-1], '%s classifies or splits characters with %s outside the '
                             'reviewed splitter (Ranges::next, split_into, read): a second splitting implementation'
                             % (root, prim.split('::')[-1]), loc=body.loc(t))
    for prim, need in REQUIRED_CALLERS.items():
        for root in need:
            if root not in got.get(prim, {}):
                cx.require(root in F.by_root, 'function %s not found' % root)
                b0 = F.by_root[root][0]
                cx.violation(root, 'does-not-use:%s' % prim.split('::')[-1], '%s no longer obtains field boundaries / character '
                             'classes from %s' % (root, prim), loc=b0.loc(b0.d))
    # Class values outside the splitter module: only read::assigning may compare against them
    for fn, body in F.bodies.items():
        if fn.startswith(SPLIT):
            continue
        for b, j, s in Q.find_aggregates(body, CLASS):
            cx.site('%s mentions Class::%s at %s' % (fn, s['rv']['variant'], body.loc(s)))
            if body.root != READ_ASSIGN:
                cx.violation(body.root, 'class-outside-splitter', '%s builds a split::Class value itself' % body.root, loc=body.loc(s))

    # data flow inside read::assigning::assign
    body = F.body(READ_ASSIGN)
    cx.fn(READ_ASSIGN)
    du = Q.DefUse(body)
    ifs_const = re.compile(r'^yash_env::variable::(constants::)?IFS$')
    seeds = {s_['lhs']['l'] for b, j, s_ in body.stmts() if s_['k'] == 'assign' and
             any(ifs_const.match(o.get('cdef') or '') for o in Q.rvalue_operands(s_['rv']))}
    seeds |= {t['dest']['l'] for b, t in body.calls() if any(ifs_const.match(a.get('cdef') or '') for a in t['a'])}
    t_ifs = Q.forward_taint(body, seeds) if seeds else set()
    news = Q.find_calls(body, [IFS + "::<'a>::new"])
    ctor = Q.find_calls(body, [RANGES_CTOR])
    cx.site('%s: Ifs::new x%d, Ifs::ranges x%d, IFS constant in %d locals' % (READ_ASSIGN, len(news), len(ctor), len(seeds)))
    if len(news) != 1 or len(ctor) != 1:
        cx.violation(READ_ASSIGN, 'shape', 'read must build one Ifs from $IFS and one Ranges over the line', loc=body.loc(body.d))
        return
    if Q.operand_local(news[0][1]['a'][0]) not in t_ifs:
        cx.violation(READ_ASSIGN, 'flow:IFS->Ifs', 'the separators used by read do not come from $IFS', loc=body.loc(news[0][1]))
    d_seeds = {s_['lhs']['l'] for b, j, s_ in body.stmts() if s_['k'] == 'assign' and
               any(o.get('cdef') == IFS + "::<'a>::DEFAULT" for o in Q.rvalue_operands(s_['rv']))}
    t_dflt = Q.forward_taint(body, d_seeds, through_calls=[]) if d_seeds else set()
    dflt = [(b, t) for b, t in Q.find_calls(body, [re.compile(r'Option::<T>::unwrap_or$')])
            if any(a.get('cdef') == IFS + "::<'a>::DEFAULT" or Q.operand_local(a) in t_dflt for a in t['a'])
            and Q.operand_local(t['a'][0]) in t_ifs]
    if not dflt:
        cx.violation(READ_ASSIGN, 'default-ifs', 'with IFS unset read must split at the default separators (Ifs::DEFAULT)',
                     loc=body.loc(news[0][1]))
    ifs_local = news[0][1]['dest']['l']
    if _arg_local_behind_ref(du, ctor[0][1]['a'][0]) != ifs_local:
        cx.violation(READ_ASSIGN, 'flow:Ifs->ranges', 'the Ranges iterator of read is not created from the Ifs built from $IFS',
                     loc=body.loc(ctor[0][1]))
    text_args = [l for l in range(1, body.argc + 1) if 'AttrChar' in body.locals[l]['ty'] and body.locals[l]['ty'].startswith('&[')]
    cx.require(len(text_args) == 1, 'assign has no single &[AttrChar] parameter')
    t_text = Q.forward_taint(body, set(text_args))
    if Q.operand_local(ctor[0][1]['a'][1]) not in t_text:
        cx.violation(READ_ASSIGN, 'flow:text->ranges', 'the Ranges iterator of read does not run over the input line', loc=body.loc(ctor[0][1]))
    # fields are taken with Ranges::next: in the closure for all variables but the last, and for the last one
    nexts = [(lb, t) for lb in F.logical(READ_ASSIGN) for b, t in Q.find_calls(lb, [RANGES_NEXT])]
    in_closure = [1 for lb, t in nexts if lb.fn != READ_ASSIGN]
    cx.site('%s: Ranges::next x%d (%d in closures)' % (READ_ASSIGN, len(nexts), len(in_closure)))
    if not in_closure or len(nexts) - len(in_closure) < 1:
        cx.violation(READ_ASSIGN, 'field-source', 'every variable (the last one included) must receive the next field of the shared '
                     'splitter', loc=body.loc(body.d))
    # the remainder for the last variable: from the start of its field to one past the last character that is
    # not IFS white space
    rpos = Q.find_calls(body, [re.compile(r'Iterator>::rposition$'), '*::Iterator::rposition'])
    rng = [(b, j, s) for b, j, s in Q.find_aggregates(body, 'core::ops::range::Range')
           if not all('c' in o and 'cp' not in o and 'mv' not in o for o in s['rv']['ops'])]
    cx.site('%s: rposition x%d, computed Range x%d' % (READ_ASSIGN, len(rpos), len(rng)))
    if len(rpos) != 1 or len(rng) != 1:
        cx.violation(READ_ASSIGN, 'remainder-shape', 'the remainder given to the last variable must end after the last character that '
                     'is not IFS white space (one rposition over the line)', loc=body.loc(body.d))
        return
    t_r = Q.forward_taint(body, {rpos[0][1]['dest']['l']})
    start_o, end_o = rng[0][2]['rv']['ops']
    if Q.operand_local(end_o) not in t_r:
        cx.violation(READ_ASSIGN, 'remainder-end', 'the remainder given to the last variable does not end at the position found by '
                     'rposition: trailing IFS white space would be kept (or text lost)', loc=body.loc(rng[0][2]))
    plus1 = [s for b, j, s in body.stmts() if s['k'] == 'assign' and s['rv']['k'] == 'binop' and s['rv']['op'] in ('Add', 'AddWithOverflow')
             and Q.operand_local(s['rv']['a']) in t_r and str(s['rv']['b'].get('c', '')).startswith('1_')]
    if not plus1:
        cx.violation(READ_ASSIGN, 'remainder-end+1', 'the end of the remainder must be one past the last non-white-space character',
                     loc=body.loc(rng[0][2]))
    first_next = [t for lb, t in nexts if lb.fn == READ_ASSIGN]
    t_first = Q.forward_taint(body, {t['dest']['l'] for t in first_next})
    if Q.operand_local(start_o) not in t_first:
        cx.violation(READ_ASSIGN, 'remainder-start', 'the remainder does not start at the field the splitter assigned to the last '
                     'variable', loc=body.loc(rng[0][2]))
    if Q.operand_local(rpos[0][1]['a'][0]) not in t_text:
        cx.violation(READ_ASSIGN, 'remainder-text', 'the end of the remainder is not searched in the input line', loc=body.loc(rpos[0][1]))
    # the predicate given to rposition: "is not IFS white space", through classify_attr
    clo = du.origin(rpos[0][1]['a'][1])
    cx.require(clo['k'] == 'agg' and clo['rv'].get('ak') == 'closure', 'rposition predicate is not a closure')
    cdef = clo['rv']['def']
    h = F.hir_of(READ_ASSIGN)
    cnode = [x for x in H.walk(h['body']) if x.get('k') == 'closure' and x.get('def') == cdef]
    cx.require(len(cnode) == 1, 'closure %s not found in HIR' % cdef)
    cls = {}

    def extern(name, recv, args, node):
        if name == IFS + "::<'_>::classify_attr" and args == [('O', 'ch')]:
            return V('%s::%s' % (CLASS, cls['c']))
        raise Undecidable('rposition predicate: call of %s is not modelled' % name)
    it = Interp(F, extern)
    captured = {x['id']: ('O', 'captured', x.get('name')) for x in H.walk(cnode[0]['body']) if x.get('k') == 'local'}
    for c in _variants(F, CLASS):
        cls['c'] = c
        env = dict(captured)
        keep = it.call_closure(('C', cnode[0], env), [('O', 'ch')])
        cx.cellcount(1)
        if keep is not (c != 'IfsWhitespace'):
            cx.violation(READ_ASSIGN, 'remainder-predicate:%s' % c, 'when trimming the remainder for the last variable, a %s character is '
                         '%s' % (c, 'kept as the end' if keep else 'trimmed'), loc=_hloc(F, READ_ASSIGN, cnode[0]))


# =====================================================================================
# C01.R5b - the quoting forms, evaluated
# =====================================================================================
PHRASE = 'yash_semantics::expansion::phrase::Phrase'
OK = 'core::result::Result::Ok'
ERR = 'core::result::Result::Err'
TEXTUNIT_EXPAND = INIT + 'text::<impl ' + INIT + 'Expand<S> for yash_syntax::syntax::TextUnit>::expand'
WORDUNIT_EXPAND = INIT + 'word::<impl ' + INIT + 'Expand<S> for yash_syntax::syntax::WordUnit>::expand'


def _ac(value, origin, quoted, quoting):
    return ('S', ATTRCHAR, tuple(sorted({'value': value, 'origin': V(ORIGIN + '::' + origin), 'is_quoted': quoted,
                                         'is_quoting': quoting}.items())))


def _show_chars(v):
    out = []
    for c in v:
        if isinstance(c, tuple) and c and c[0] == 'S':
            d = dict(c[2])
            out.append('%r/%s%s%s' % (d['value'], d['origin'][1].split('::')[-1], '/quoted' if d['is_quoted'] else '',
                                      '/quoting' if d['is_quoting'] else ''))
        else:
            out.append(repr(c))
    return '[' + ', '.join(out) + ']'


def _arm_for(F, it, fn, adt_variant_value):
    h = F.hir_of(fn)
    ms = [m for m in H.matches_in(_async_block(h)) if re.sub(r'^&(mut )?', '', (m.get('sty') or '')) == adt_variant_value[1].rsplit('::', 1)[0]]
    if len(ms) != 1:
        raise AnchorMissing('%s: expected one match over %s' % (fn, adt_variant_value[1].rsplit('::', 1)[0]))
    for arm in ms[0]['arms']:
        env = {}
        if it.bind(arm['pat'], adt_variant_value, env):
            if arm.get('guard') is not None:
                raise Undecidable('guarded arm')
            return arm, env
    raise AnchorMissing('%s: no arm for %s' % (fn, adt_variant_value[1]))


@RS.rule('C01.R5b', 'K-TABLE', "quoting forms evaluated: '..', $'..', backslash, literal characters and \"..\" mark exactly their content as quoted")
def r5b(cx):
    F = cx.F
    it = Interp(F, _no_extern('quoting form'))
    samples = ['', 'a', ' *', "a'$\\"]
    word = INIT + 'word::'
    for fn, marks in ((word + 'single_quote', ["'"]), (word + 'dollar_single_quote', ['$', "'"])):
        cx.fn(fn)
        for s_ in samples:
            r = freeze(it.call_fn(fn, [s_]))
            want = V(PHRASE + '::Field', tuple([_ac(m, 'Literal', False, True) for m in marks] +
                                               [_ac(c, 'Literal', True, False) for c in s_] + [_ac("'", 'Literal', False, True)]))
            cx.cellcount(1)
            if r != want:
                got = _show_chars(r[2][0]) if is_variant(r) and r[2] and isinstance(r[2][0], tuple) else _short(r)
                cx.violation(fn, 'form:%r' % s_, '%s(%r) yields %s, expected %s: the quotation marks must be quoting characters and every '
                             'enclosed character quoted' % (fn.split('::')[-1], s_, got, _show_chars(want[2][0])), loc=_hloc(F, fn))
    fn = INIT + 'param::to_field'
    cx.fn(fn)
    for s_ in samples:
        r = freeze(it.call_fn(fn, [s_]))
        want = tuple(_ac(c, 'SoftExpansion', False, False) for c in s_)
        cx.cellcount(1)
        if r != want:
            cx.violation(fn, 'form:%r' % s_, 'to_field(%r) yields %s, expected %s' % (s_, _show_chars(r) if isinstance(r, tuple) else r,
                                                                                     _show_chars(want)), loc=_hloc(F, fn))
    # TextUnit: literal character and backslash escape
    cx.fn(TEXTUNIT_EXPAND)
    TU = 'yash_syntax::syntax::TextUnit::'
    for ch in ('a', ' ', '\\', '*'):
        for variant, want in (('Literal', V(OK, V(PHRASE + '::Char', _ac(ch, 'Literal', False, False)))),
                              ('Backslashed', V(OK, V(PHRASE + '::Field', (_ac('\\', 'Literal', False, True), _ac(ch, 'Literal', True, False)))))):
            arm, env = _arm_for(F, it, TEXTUNIT_EXPAND, V(TU + variant, ch))
            r = freeze(it.ev(arm['body'], env))
            cx.cellcount(1)
            if r != want:
                cx.violation(TEXTUNIT_EXPAND, 'unit:%s:%r' % (variant, ch), 'TextUnit::%s(%r) expands to %s, expected %s'
                             % (variant, ch, _short(r), _short(want)), loc=_hloc(F, TEXTUNIT_EXPAND, arm))
    # delegation of the other units
    deleg = {
        TEXTUNIT_EXPAND: ('yash_syntax::syntax::TextUnit', {
            'RawParam': [re.compile(r'param::ParamRef<.*Expand<S>>::expand$')], 'BracedParam': [re.compile(r'param::ParamRef<.*Expand<S>>::expand$')],
            'CommandSubst': [INIT + 'command_subst::expand'], 'Backquote': [INIT + 'command_subst::expand'],
            'Arith': [INIT + 'arith::expand']}),
        WORDUNIT_EXPAND: ('yash_syntax::syntax::WordUnit', {
            'Unquoted': [TEXTUNIT_EXPAND], 'SingleQuote': [word + 'single_quote'], 'DollarSingleQuote': [word + 'dollar_single_quote'],
            'DoubleQuote': [re.compile(r'Expand<S> for yash_syntax::syntax::Text>::expand$'), word + 'double_quote'],
            'Tilde': [INIT + 'tilde::expand']}),
    }
    for fn, (adt, table) in deleg.items():
        cx.fn(fn)
        h = F.hir_of(fn)
        ms = [m for m in H.matches_in(_async_block(h)) if re.sub(r'^&(mut )?', '', (m.get('sty') or '')) == adt]
        cx.require(len(ms) == 1, '%s: match over %s not found' % (fn, adt))
        for vname in _variants(F, adt):
            if vname not in table:
                if vname in ('Literal', 'Backslashed'):
                    continue
                cx.violation(fn, 'unit-unknown:%s' % vname, '%s::%s has no reviewed expansion' % (adt, vname), loc=_hloc(F, fn))
                continue
            i, arm = H.first_matching_arm(ms[0], ('variant', '%s::%s' % (adt, vname), None))
            cx.require(i is not None, '%s: arm for %s not decidable' % (fn, vname))
            cx.cellcount(1)
            for pat in table[vname]:
                if not H.calls(arm['body'], [pat]):
                    cx.violation(fn, 'unit:%s' % vname, '%s::%s is not expanded by %s' % (adt.split('::')[-1], vname,
                                 pat.pattern if hasattr(pat, 'pattern') else pat), loc=_hloc(F, fn, arm))
    # "..." : expanded in a non-splitting context (so that "$*" is joined), context restored on success and on error,
    # and every resulting character marked by double_quote
    log = []
    WU = 'yash_syntax::syntax::WordUnit::'
    for will_split in (False, True):
        for outcome in ('ok', 'err'):
            envv = MutStruct(INIT + 'Env', {'will_split': will_split, 'inner': ('O', 'inner')})
            del log[:]

            def extern(name, recv, args, node, envv=envv, outcome=outcome):
                if re.search(r'Expand<S> for yash_syntax::syntax::Text>::expand$', name or ''):
                    log.append(('expand', envv.fields['will_split']))
                    return V(OK, ('O', 'phrase')) if outcome == 'ok' else V(ERR, ('O', 'error'))
                if name == word + 'double_quote':
                    log.append(('double_quote', args[0]))
                    return ('T', ())
                raise Undecidable('DoubleQuote arm: call of %s is not modelled' % name)
            it2 = Interp(F, extern)
            arm, env = _arm_for(F, it2, WORDUNIT_EXPAND, V(WU + 'DoubleQuote', ('O', 'text')))
            # the arm refers to the (re-bound) `env` parameter of the async fn: bind every free local of that type
            hh = F.hir_of(WORDUNIT_EXPAND)
            for ty, ids in _params_by_type(hh).items():
                if 'initial::Env' in (ty or ''):
                    for i_ in ids:
                        env[i_] = envv
            try:
                r = it2.ev(arm['body'], env)
            except _Return as ret:
                r = ret.v
            cx.cellcount(1)
            cell = 'will_split=%s/%s' % (will_split, outcome)
            exp = [e for e in log if e[0] == 'expand']
            if len(exp) != 1 or exp[0][1] is not False:
                cx.violation(WORDUNIT_EXPAND, 'dq-context:' + cell, 'the text inside double quotes is expanded with will_split=%s: '
                             '"$*" would not be joined into one field' % (exp[0][1] if exp else 'n/a'), loc=_hloc(F, WORDUNIT_EXPAND, arm))
            if envv.fields['will_split'] is not will_split:
                cx.violation(WORDUNIT_EXPAND, 'dq-restore:' + cell, 'after a double-quoted part (%s) the splitting context is %s instead of '
                             'the previous %s: a following unquoted $* is joined / not joined wrongly'
                             % (outcome, envv.fields['will_split'], will_split), loc=_hloc(F, WORDUNIT_EXPAND, arm))
            marked = [e for e in log if e[0] == 'double_quote']
            if outcome == 'ok' and (len(marked) != 1 or marked[0][1] != ('O', 'phrase') or freeze(r) != V(OK, ('O', 'phrase'))):
                cx.violation(WORDUNIT_EXPAND, 'dq-mark:' + cell, 'the phrase expanded inside double quotes is not passed through '
                             'double_quote before it is returned', loc=_hloc(F, WORDUNIT_EXPAND, arm))
            if outcome == 'err' and freeze(r) != V(ERR, ('O', 'error')):
                cx.violation(WORDUNIT_EXPAND, 'dq-error:' + cell, 'an expansion error inside double quotes is not propagated',
                             loc=_hloc(F, WORDUNIT_EXPAND, arm))


TRIM_APPLY = 'yash_semantics::expansion::initial::param::trim::apply'
WORD_EXPAND = [re.compile(r'Expand<S> for yash_syntax::syntax::Word>::expand$')]


@RS.rule('C01.R4b', 'K-PASS', 'trim modifiers: the pattern word is expanded on every path (its unset-parameter / ${x?} errors and side '
         'effects are required whatever the value being trimmed is)')
def r4b(cx):
    F = cx.F
    body = F.main_body(TRIM_APPLY)
    cx.fn(body.fn)
    du = Q.DefUse(body)
    exp = [(b, t) for b, t in Q.find_calls(body, WORD_EXPAND) if 'pattern' in str(Q.arg_names(body, du, t)[0])]
    cx.site('%s: trim.pattern.expand(env) x%d' % (body.fn, len(exp)))
    if not exp:
        cx.violation(TRIM_APPLY, 'pattern-not-expanded', 'the pattern word of ${x#w} is never expanded', loc=body.loc(body.d))
        return
    p = Q.must_pass(body, [0], {b for b, _ in exp})
    if p is not None:
        cx.violation(TRIM_APPLY, 'pattern-expansion-skipped', 'a path through the trim modifier returns without expanding the pattern word: '
                     '`set -u; e=; : ${e#$unset}` and `${e%${nosuch?}}` must fail, and `${e#${y:=v}}` must assign y, whatever the value '
                     'of e is', loc=body.loc(body.term(p[min(len(p) - 1, 1)])), path=Q.render_path(body, p))


RS.rules.sort(key=lambda r: r.id)


@RS.rule('C01.R4c', 'K-TABLE', 'nounset / ${x?} in the operand of a redirection fail like everywhere else: the error is handled as an expansion '
         'error, not as a failed open')
def r4c(cx):
    from rules.C10 import expansion_cause_in_redirection
    expansion_cause_in_redirection(cx)


RS.rules.sort(key=lambda r: r.id)


# =====================================================================================
# C01.R8 - the separators used to split a word are those in effect after its own expansion
# =====================================================================================
_IFS_CONST = re.compile(r'^yash_env::variable::(constants::)?IFS$')
_POLL = ['core::future::future::Future::poll', '*::Future::poll']
_ENV_WRAP = [re.compile(r'^' + re.escape(INIT) + r'Env::<.*>::new$')]


@RS.rule('C01.R8', 'K-ORDER', 'the $IFS value that splits a word is read after the initial expansion of that word has completed '
         '(${IFS=x} and $((IFS=..)) in the word itself decide how the word is split)')
def r8(cx):
    _r8_decide(cx, cx.F, EXP + 'expand_word_multiple')


def _r8_decide(cx, F, fn):
    body = F.inlined(fn)
    cx.fn(body.fn)
    for f_ in getattr(body, 'inlined_from', []):
        cx.fn(f_)
    du = Q.DefUse(body)
    ex = Q.find_calls(body, EXPAND_CALL)
    cx.site('%s: initial expansion x%d%s' % (fn, len(ex), (' at ' + body.loc(ex[0][1])) if ex else ''))
    if len(ex) != 1:
        cx.violation(fn, 'missing-step:initial expansion', 'expand_word_multiple must perform the initial expansion exactly once per word',
                     loc=body.loc(body.d))
        return
    eb, et = ex[0]
    # completion of the expansion: the Ready edge of the poll of the future created by the expand call (a plain call if not async)
    t_future = Q.forward_taint(body, {et['dest']['l']})
    done_edges = []
    for pb, pt in Q.find_calls(body, _POLL):
        if not any(Q.operand_local(a) in t_future for a in pt['a']):
            continue
        for sb in sorted(body.reachable(pt['to']) if pt.get('to') is not None else ()):
            ec = Q.edge_condition(F, body, du, sb)
            if ec is None:
                continue
            org, labels = ec
            if org['k'] == 'discr' and org['pl']['l'] == pt['dest']['l']:
                for tgt, labs in labels.items():
                    if labs == [('variant', 'Ready')]:
                        done_edges.append((sb, tgt))
    is_async = body.fn != fn
    cx.require(bool(done_edges) or not is_async, 'the await of the initial expansion (Ready edge of its poll) was not found in %s' % body.fn)
    cx.site('%s: expansion completed on %s' % (fn, ', '.join('bb%d->bb%d' % e for e in done_edges) or 'return of the expand call'))

    def completed_before(blk):
        if done_edges:
            return any(Q.edge_dominates(body, u, v, blk) for u, v in done_edges)
        return blk != eb and body.dominates(eb, blk)

    # where the separators enter field splitting: the Ifs argument of split_into, or everything captured by the closure that calls it
    targets = []          # (description, local, loc)
    for sb, st in Q.find_calls(body, SPLIT_INTO):
        l = Q.operand_local(st['a'][1]) if len(st['a']) > 1 else None
        cx.require(l is not None, 'the Ifs argument of split_into is not a local')
        targets.append(('split_into', l, body.loc(st)))
    if not targets:
        for lb in F.logical(fn):
            if lb.fn != body.fn and Q.find_calls(lb, SPLIT_INTO):
                for b, j, s_ in body.stmts():
                    if s_['k'] == 'assign' and s_['rv']['k'] == 'agg' and s_['rv'].get('def') == lb.fn:
                        for o in s_['rv'].get('ops') or []:
                            if Q.operand_local(o) is not None:
                                targets.append(('closure calling split_into', Q.operand_local(o), body.loc(s_)))
    cx.site('%s: field splitting receives its separators at %s' % (fn, sorted({x[2] for x in targets}) or 'no site'))
    if not targets:
        cx.violation(fn, 'missing-step:field splitting', 'expand_word_multiple does not split the expanded word', loc=body.loc(body.d))
        return
    target_locals = {l for _, l, _ in targets}

    # reads of the shell state: calls that are handed the environment / its variable set (by reference) or the name IFS
    env_seeds = {i for i in range(1, len(body.locals)) if re.search(r'(^|[ &<(])(yash_env::Env|yash_env::variable::VariableSet|'
                                                                    + re.escape(INIT) + r'Env)\b', body.locals[i]['ty'])}
    cx.require(bool(env_seeds), 'no local of type Env / VariableSet in %s' % body.fn)
    t_env = Q.forward_taint(body, env_seeds, through_calls=_ENV_WRAP)
    name_seeds = {s_['lhs']['l'] for b, j, s_ in body.stmts() if s_['k'] == 'assign' and
                  any(_IFS_CONST.match(o.get('cdef') or '') for o in Q.rvalue_operands(s_['rv']))}
    t_name = Q.forward_taint(body, name_seeds, through_calls=[]) if name_seeds else set()
    reads = []
    for b, t in body.calls():
        if Q.callee_is(t, EXPAND_CALL + _ENV_WRAP + _POLL):
            continue
        by_name = any(_IFS_CONST.match(a.get('cdef') or '') or Q.operand_local(a) in t_name for a in t['a'])
        by_env = any(Q.operand_local(a) in t_env for a in t['a'])
        if not (by_name or by_env):
            continue
        flows = Q.forward_taint(body, {t['dest']['l']})
        if not (flows & target_locals):
            continue
        reads.append((b, t, by_name))
    cx.site('%s: %d read(s) of the shell variables reach the separators of split_into: %s'
            % (fn, len(reads), ', '.join('%s at %s' % (H.short(t['f'].get('def') or t['f'].get('decl') or '?'), body.loc(t)) for _, t, _ in reads)))
    if not any(n for _, _, n in reads):
        cx.violation(fn, 'no-ifs-read', 'the separators given to field splitting are not looked up under the name IFS', loc=targets[0][2])
    for b, t, _ in reads:
        if not completed_before(b):
            cx.violation(fn, 'ifs-read-before-expansion', 'the value of $IFS used to split the word is looked up before the initial expansion of '
                         'that word has completed: `unset IFS; v=a-b; printf "[%s]" $v${IFS=-}c` must print [a][b][c], and '
                         '`IFS=; echo ${IFS:=:}$v` must split at the newly assigned colon (POSIX XCU 2.6: field splitting follows '
                         'parameter and arithmetic expansion, which may assign IFS)', loc=body.loc(t))


RS.rules.sort(key=lambda r: r.id)


# --- explanation addendum (generated catalogue in DESIGN.md reads RS.explanation)
RS.explanation += ' Added after the seed waves and the audit: the pattern word of a trim modifier is expanded on every path (R4b); an expansion error in a redirection operand is handled as an expansion error (R4c).'
RS.explanation += ' (R8) every read of the shell variables whose result reaches the Ifs given to split_into is dominated by the Ready edge of the await of the same word\'s initial expansion, so ${IFS=x} / $((IFS=..)) inside the word decide how that word is split.'


# =====================================================================================
# C01.R9 - the transducer is applied to every field (closes the gap between R1 and R6)
# =====================================================================================
_IS_SOME = ['core::option::Option::<T>::is_some']
_IS_NONE = ['core::option::Option::<T>::is_none']


def _r9_params(cx, body):
    """(field, ifs, out) parameter locals of split_into / split, by type."""
    ps = list(range(1, body.argc + 1))
    field = [l for l in ps if (ATTR + 'AttrField') in body.locals[l]['ty']]
    ifs = [l for l in ps if IFS in body.locals[l]['ty']]
    out = [l for l in ps if body.locals[l]['ty'].startswith('&mut ') and l not in field and l not in ifs]
    cx.require(len(field) == 1 and len(ifs) == 1, '%s has no single AttrField and single Ifs parameter' % body.fn)
    return field[0], ifs[0], out


def _r9_governed(F, body, du, b, t, t_ranges):
    """The delivery call t in block b happens only for a range the transducer yielded: it consumes a value computed from the
    Ranges iterator (iterator-adaptor form, or the field cut at a yielded range), or it is control dependent on `Some` of a value
    obtained from that iterator (while-let / for / match / if-let / is_some() / !is_none())."""
    if any(Q.operand_local(a) in t_ranges for a in t['a']):
        return 'data'
    for org, lab, edge in Q.implied_conditions(F, body, du, b):
        org, lab = Q.peel_not(du, org, lab)
        if org['k'] == 'discr' and org['pl']['l'] in t_ranges and lab == ('variant', 'Some'):
            return 'control'
        if org['k'] == 'call' and any(Q.operand_local(a) in t_ranges for a in org['t']['a']):
            if (Q.callee_is(org['t'], _IS_SOME) and lab == ('bool', True)) or (Q.callee_is(org['t'], _IS_NONE) and lab == ('bool', False)):
                return 'control'
    return None


@RS.rule('C01.R9', 'K-PASS', 'split_into runs the Ranges transducer (Ifs::ranges, given Ifs, given field) on every path to a return and '
         'delivers a field only for a range it yielded: nothing lets a field bypass splitting / empty-field removal')
def r9(cx):
    from facts import same_module_private
    F = cx.F
    fn = SPLIT + 'split_into'
    base = F.main_body(fn)
    priv = same_module_private(F, base.root)
    # private helpers of the module are seen in place; the transducer itself stays a call
    body = F.inlined(base, accept=lambda c: priv(c) and not Q.name_matches(c, RANGES_CALLS[0]) and c != RANGES_NEXT)
    cx.fn(body.fn)
    for h in getattr(body, 'inlined_from', []):
        cx.fn(h)
    du = Q.DefUse(body)
    field_l, ifs_l, outs = _r9_params(cx, body)
    cx.require(len(outs) == 1, '%s has no single `&mut` output collection parameter' % fn)
    out_l = outs[0]
    t_field = Q.forward_taint(body, {field_l})
    t_ifs = Q.forward_taint(body, {ifs_l})
    t_out = Q.forward_taint(body, {out_l})

    allrc = Q.find_calls(body, RANGES_CALLS)
    rc = [(b, t) for b, t in allrc if len(t['a']) == 2 and Q.operand_local(t['a'][0]) in t_ifs and Q.operand_local(t['a'][1]) in t_field]
    for b, t in allrc:
        cx.site('%s: Ifs::ranges(%s) at %s%s' % (fn, ', '.join(str(n) for n in Q.arg_names(body, du, t)), body.loc(t),
                                                '' if (b, t) in rc else ' (NOT the given Ifs over the given field)'))
    if not rc:
        cx.violation(fn, 'splitter-not-applied', 'split_into does not run Ifs::ranges with the Ifs it was given over the characters of the '
                     'field it was given: fields are not split at $IFS and entirely empty unquoted fields are not removed',
                     loc=body.loc(body.d))
        return
    p = Q.must_pass(body, [0], {b for b, _ in rc})
    cx.site('%s: %d return block(s); every path from the entry %s the transducer' % (fn, len(body.return_blocks()),
                                                                                       'passes' if p is None else 'does NOT always pass'))
    if p is not None:
        cx.violation(fn, 'splitter-skipped', 'a path through split_into returns without running the Ranges transducer on the field: whatever '
                     'decides that (the IFS value, the field) the field is then neither split nor - if it consists only of empty unquoted '
                     'expansions - removed: `IFS=; e=; set -- $e; echo $#` must print 0 (POSIX XCU 2.6.5)',
                     loc=body.loc(body.term(p[min(len(p) - 1, 1)])), path=Q.render_path(body, p))

    t_ranges = Q.forward_taint(body, {t['dest']['l'] for _, t in rc})
    deliveries = [(b, t) for b, t in body.calls() if any(Q.operand_local(a) in t_out for a in t['a'])]
    cx.floor(len(deliveries), 1, 'calls in split_into that receive the output collection')
    for b, t in deliveries:
        how = _r9_governed(F, body, du, b, t, t_ranges)
        callee = H.short(t['f'].get('def') or t['f'].get('decl') or '?')
        cx.site('%s: output collection handed to %s at %s: %s' % (fn, callee, body.loc(t),
                {'data': 'consumes a value computed from the Ranges iterator', 'control': 'only after the Ranges iterator yielded Some(range)',
                 None: 'NOT governed by the Ranges iterator'}[how]))
        if how is None:
            cx.violation(fn, 'delivery-bypasses-splitter:%s' % callee, 'split_into adds a field to the results that is not one of the '
                         'ranges yielded by the Ranges transducer (the call neither consumes a value computed from Ifs::ranges nor is '
                         'it reached only after that iterator returned Some): a field can reach the results unsplit, and a field made '
                         'only of empty unquoted expansions is kept instead of removed (`IFS=; e=; set -- $e; echo $#` prints 1)',
                         loc=body.loc(t))

    # the convenience wrapper returns what split_into delivered
    wfn = SPLIT + 'split'
    wb = F.inlined(wfn, accept=lambda c: priv(c) and c != fn)
    cx.fn(wb.fn)
    wdu = Q.DefUse(wb)
    wfield, wifs, _ = _r9_params(cx, wb)
    wt_field = Q.forward_taint(wb, {wfield})
    wt_ifs = Q.forward_taint(wb, {wifs})
    wc = [(b, t) for b, t in Q.find_calls(wb, [fn]) if len(t['a']) == 3 and Q.operand_local(t['a'][0]) in wt_field
          and Q.operand_local(t['a'][1]) in wt_ifs]
    cx.site('%s: split_into(the field, the Ifs, ..) x%d' % (wfn, len(wc)))
    wp = Q.must_pass(wb, [0], {b for b, _ in wc}) if wc else [0]
    if wp is not None:
        cx.violation(wfn, 'splitter-skipped', 'a path through split returns without passing the field and the Ifs to split_into',
                     loc=wb.loc(wb.term(wp[min(len(wp) - 1, 1)])) if wc else wb.loc(wb.d), path=Q.render_path(wb, wp) if wc else None)
    else:
        ret_src = _arg_local_behind_ref(wdu, wc[0][1]['a'][2])
        if ret_src is None or 0 not in Q.forward_taint(wb, {ret_src}) and ret_src != 0:
            cx.violation(wfn, 'result-not-from-split_into', 'split does not return the collection that split_into filled', loc=wb.loc(wc[0][1]))


RS.rules.sort(key=lambda r: r.id)
RS.explanation += ' (R9) in split_into every path from the entry to a return runs Ifs::ranges with the given Ifs over the given field, and every call that receives the output collection either consumes a value computed from that Ranges iterator or is dominated by a Some edge of a value obtained from it: the transducer proved in R1 is applied to every field that R6 sends to split_into, so no value of IFS or of the field bypasses splitting and empty-field removal.'


# =====================================================================================
# C01.R10 - the quoting context of a WordLexer is fixed at construction
# =====================================================================================
WORDLEXER = 'yash_syntax::parser::lex::core::WordLexer'


def _r10_field_index(place, adt, field):
    for i, e in enumerate(place.get('p') or []):
        if isinstance(e, dict) and 'f' in e and e.get('adt') and Q.name_matches(e['adt'], adt) and e['f'] == field:
            return i
    return None


def _r10_saved_read(body, du, operand, adt, field):
    """If the operand is (a chain of single-definition copies of) a read of `.field` of `adt`, the (block, idx) of that read."""
    for _ in range(12):
        p = Q.operand_place(operand)
        if p is None or p.get('p'):
            return None
        d = du.single_def(p['l'])
        if d is None or d[1] == 't' or d[2]['k'] != 'assign' or d[2]['rv']['k'] != 'use':
            return None
        operand = d[2]['rv']['o']
        q = Q.operand_place(operand)
        if q is not None and q.get('p'):
            i = _r10_field_index(q, adt, field)
            if i is not None and i == len(q['p']) - 1:
                return (d[0], d[1])
            return None
    return None


@RS.rule('C01.R10', 'K-WRITERS', 'the quoting context of a WordLexer (text inside "..." / here-document vs word) is set where the WordLexer is '
         'built; code that changes it on a WordLexer it only borrows puts the saved value back on every path to its return')
def r10(cx):
    F = cx.F
    cx.require(WORDLEXER in F.adts, 'type %s not found' % WORDLEXER)
    fields = [f.get('name') for v in F.adts[WORDLEXER].get('variants', []) for f in v.get('fields', [])]
    cx.require('context' in fields, '%s has no field `context` (fields: %s)' % (WORDLEXER, fields))
    nbuilt = 0
    for fn in sorted(F.bodies):
        body = F.bodies[fn]
        aggs = Q.find_aggregates(body, WORDLEXER)
        ws = Q.field_writes(body, WORDLEXER, 'context')
        if not aggs and not ws:
            continue
        du = Q.DefUse(body)
        if aggs and body.root.startswith('yash_syntax::'):
            cx.fn(body.root)
        for b, j, s in aggs:
            nbuilt += 1
            if body.root.startswith('yash_syntax::'):
                cx.site('%s: builds a WordLexer at %s' % (body.fn, body.loc(s)))
        if not ws:
            continue
        cx.fn(body.root)
        sets, restores = [], []
        for b, j, s, kind, f in ws:
            place = s['lhs'] if kind == 'assign' else s['rv']['pl']
            i = _r10_field_index(place, WORDLEXER, 'context')
            if kind == 'borrow_mut' and i != len(place['p']) - 1:
                continue                          # a borrow of something behind the field, not of the field
            rp = du.deref_origin(place)
            ri = _r10_field_index(rp, WORDLEXER, 'context')
            borrowed = ri is None or '*' in (rp.get('p') or [])[:ri]
            if not borrowed:
                cx.site('%s: sets the context of a WordLexer it owns at %s' % (body.fn, body.loc(s)))
                continue
            saved = _r10_saved_read(body, du, s['rv']['o'], WORDLEXER, 'context') if (kind == 'assign' and s['rv']['k'] == 'use') else None
            if saved is not None:
                restores.append((b, j, s, saved))
                cx.site('%s: puts a saved context back at %s' % (body.fn, body.loc(s)))
            else:
                sets.append((b, j, s, kind))
                cx.site('%s: changes the context of a borrowed WordLexer at %s' % (body.fn, body.loc(s)))
        for b, j, s, kind in sets:
            # restores that count: the value they put back was read before this change
            good = [r for r in restores if (r[3][0] == b and r[3][1] != 't' and r[3][1] < j) or (r[3][0] != b and body.dominates(r[3][0], b))]
            if any(r[0] == b and r[1] > j for r in good):
                continue
            p = Q.must_pass(body, body.succ(b), {r[0] for r in good}) if body.succ(b) else [b]
            if b in body.return_blocks():
                p = [b]
            if p is not None:
                cx.violation(body.root, 'context-not-restored', 'the quoting context of the caller\'s WordLexer is %s and not put back on a '
                             'path to the return: the same WordLexer lexes the rest of the enclosing double-quoted string / here-document, '
                             'so what follows is lexed by the rules of the wrong context - `"${a#x}${b-\'q r\'}"` must keep the single '
                             'quotes literally (POSIX XCU 2.2.3), and \\q inside "..." must keep its backslash; use a temporary WordLexer '
                             'or restore the saved context on every exit' % ('overwritten' if kind == 'assign' else 'lent out mutably'),
                             loc=body.loc(s), path=Q.render_path(body, [b] + p if p and p[0] != b else p))
    cx.floor(nbuilt, 1, 'constructions of a WordLexer (where its context is chosen)')


RS.rules.sort(key=lambda r: r.id)
RS.explanation += ' (R10) WordLexer.context is chosen where a WordLexer is built; every assignment to (or mutable borrow of) that field through a reference, in any crate, is followed on every path to the return by an assignment of a value read from the field before the change, so a sub-lexer never leaves the lexer of the enclosing "..." / here-document in another quoting context.'


# =====================================================================================
# C01.R11 - double_quote evaluated on every shape of phrase, empty fields included
# =====================================================================================
DOUBLE_QUOTE = INIT + 'word::double_quote'
_R11_NOOP = ('alloc::vec::Vec::<T, A>::reserve_exact', 'alloc::vec::Vec::<T, A>::reserve', 'alloc::vec::Vec::<T, A>::shrink_to_fit')


def _r11_interp(F, module_prefix):
    """An interpreter whose extern models the Vec / iterator methods a marking function may use and evaluates the private
    functions of the same module; everything else fails closed."""
    pos = {}          # id(list) -> next index, for `for x in vec`
    holder = {}

    def items(v):
        if isinstance(v, tuple) and len(v) == 2 and v[0] == 'I':
            return v[1]
        if isinstance(v, list):
            return v
        raise Undecidable('not an iterator: %r' % (v,))

    def apply(f, args):
        it = holder['it']
        if isinstance(f, tuple) and f and f[0] == 'C':
            return it.call_closure(f, args)
        if isinstance(f, tuple) and f and f[0] == 'FN':
            return call_local(f[1], args)
        raise Undecidable('not a callable: %r' % (f,))

    def call_local(fn, args):
        it = holder['it']
        h = F.hir_of(fn)
        env = {}
        if len(h['params']) != len(args):
            raise Undecidable('%s: arity' % fn)
        for p_, a in zip(h['params'], args):
            if p_.get('k') != 'bind' or p_.get('sub'):
                raise Undecidable('%s: parameter pattern' % fn)
            env[p_['id']] = a
        try:
            r = it.ev(h['body'], env)
        except _Return as ret:
            r = ret.v
        for p_, a in zip(h['params'], args):
            if env[p_['id']] is not a and isinstance(a, (list, tuple, MutStruct)):
                raise Undecidable('%s replaces the value behind a parameter: not modelled for helpers' % fn)
        return r

    def extern(name, recv, args, node):
        name = name or ''
        decl = (node.get('decl') or '') if isinstance(node, dict) else ''
        if name.startswith('path:'):
            d = name[5:]
            if d.startswith(module_prefix) and d in F.hir and str(F.hir[d].get('kind')) == 'Fn':
                return ('FN', d)
            raise Undecidable('path %s' % d)
        if recv is None and name.startswith(module_prefix) and name in F.hir:
            return call_local(name, args)
        if name in _R11_NOOP:
            return ('T', ())
        if name == 'alloc::vec::Vec::<T, A>::insert' and isinstance(recv, list) and len(args) == 2 and isinstance(args[0], int) \
                and 0 <= args[0] <= len(recv):
            recv.insert(args[0], args[1])
            return ('T', ())
        # one element seen as a slice of length 1 (the element itself, not a copy: writes through the slice reach it)
        if name in ('core::slice::raw::from_mut', 'core::slice::raw::from_ref') and recv is None and len(args) == 1:
            return [args[0]]
        # a vector seen as a slice: the same elements
        if name in ('alloc::vec::Vec::<T, A>::as_mut_slice', 'alloc::vec::Vec::<T, A>::as_slice') and isinstance(recv, list) and not args:
            return recv
        if decl in ('core::ops::deref::DerefMut::deref_mut', 'core::ops::deref::Deref::deref', 'core::convert::AsMut::as_mut',
                    'core::borrow::BorrowMut::borrow_mut') and isinstance(recv, list) and not args:
            return recv
        if name in ('core::slice::<impl [T]>::iter_mut', 'core::slice::<impl [T]>::iter') and isinstance(recv, list):
            return ('I', list(recv))
        if decl == 'core::iter::traits::collect::IntoIterator::into_iter' and isinstance(recv, (list, tuple)):
            return ('I', list(items(recv)))
        if name == 'core::iter::traits::iterator::Iterator::next' or decl == 'core::iter::traits::iterator::Iterator::next':
            seq = items(recv)
            if isinstance(recv, list):
                i = pos.get(id(recv), 0)
                if i >= len(seq):
                    pos.pop(id(recv), None)
                    return V(NONE)
                pos[id(recv)] = i + 1
                return V(SOME, seq[i])
            return V(SOME, seq.pop(0)) if seq else V(NONE)
        if decl.startswith('core::iter::traits::iterator::Iterator::') and isinstance(recv, tuple) and recv and recv[0] == 'I':
            m = decl.rsplit('::', 1)[1]
            seq = recv[1]
            if m == 'for_each' and len(args) == 1:
                for x in seq:
                    apply(args[0], [x])
                return ('T', ())
            if m in ('filter', 'skip_while', 'take_while') and len(args) == 1:
                keep = []
                for x in seq:
                    r = apply(args[0], [x])
                    if not isinstance(r, bool):
                        raise Undecidable('predicate result %r' % (r,))
                    keep.append(r)
                if m == 'filter':
                    return ('I', [x for x, k_ in zip(seq, keep) if k_])
                n_ = next((i for i, k_ in enumerate(keep) if not k_), len(seq))
                return ('I', seq[n_:] if m == 'skip_while' else seq[:n_])
            if m in ('skip', 'take') and len(args) == 1 and isinstance(args[0], int):
                return ('I', seq[args[0]:] if m == 'skip' else seq[:args[0]])
            if m == 'rev':
                return ('I', list(reversed(seq)))
            if m == 'enumerate':
                return ('I', [('T', (i, x)) for i, x in enumerate(seq)])
            if m in ('all', 'any') and len(args) == 1:
                rs = [apply(args[0], [x]) for x in seq]
                return all(rs) if m == 'all' else any(rs)
        raise Undecidable('double_quote: call of %s is not modelled' % (name or decl))

    it = Interp(F, extern, fuel=20000)
    holder['it'] = it
    return it


def _r11_char(value, origin, quoted, quoting):
    return MutStruct(ATTRCHAR, {'value': value, 'origin': V(ORIGIN + '::' + origin), 'is_quoted': quoted, 'is_quoting': quoting})


def _r11_fields(v):
    """Normal form of a Phrase value: the list of its fields (Char(c) = one field of one character), or None."""
    if is_variant(v, PHRASE + '::Char') and len(v[2]) == 1:
        return [[v[2][0]]]
    if is_variant(v, PHRASE + '::Field') and len(v[2]) == 1 and isinstance(v[2][0], list):
        return [v[2][0]]
    if is_variant(v, PHRASE + '::Full') and len(v[2]) == 1 and isinstance(v[2][0], list) and all(isinstance(f, list) for f in v[2][0]):
        return v[2][0]
    return None


def _r11_show(fields):
    if fields is None:
        return 'not a phrase'
    return '(' + ', '.join(_show_chars([freeze(c) for c in f]) for f in fields) + ')' if fields else '(no field)'


@RS.rule('C01.R11', 'K-TABLE', 'double_quote evaluated on Char, Field and Full phrases of 0-3 fields, empty fields included: every field, '
         'even an empty one, comes back as quoting mark, its characters quoted, quoting mark; the number of fields is unchanged')
def r11(cx):
    F = cx.F
    fn = DOUBLE_QUOTE
    failures = _r11_evaluate(cx, F)
    for shape, fs in sorted(failures.items()):
        label, bad, shown, _ = fs[0]
        cx.violation(fn, 'shape:%s' % shape, 'double_quote(%s): %s; result %s (%d input(s) of shape %s fail: %s). Every field of a '
                     'double-quoted expansion must be delimited by quoting marks and all its characters quoted: a field without marks is '
                     'removed by field splitting when it is empty (`set -- a "" b; printf "[%%s]" "$@"` must print [a][][b], POSIX XCU '
                     '2.5.2) and split / globbed when it is not'
                     % (label, bad, shown, len(fs), shape, ' '.join(f[0] for f in fs[:6]) + (' ..' if len(fs) > 6 else '')), loc=_hloc(F, fn))


def _r11_evaluate(cx, F):
    """double_quote evaluated on every shape of phrase: {shape: [(input, what is wrong, result, kind)]}, kind 'unquoted' when
    a character of the phrase comes back without is_quoted, else 'structure'. Raises Undecidable when double_quote uses
    something the interpreter does not model."""
    import itertools
    fn = DOUBLE_QUOTE
    cx.fn(fn)
    h = F.hir_of(fn)
    cx.require(len(h['params']) == 1 and h['params'][0].get('k') == 'bind', '%s does not take one plain parameter' % fn)
    pid = h['params'][0]['id']
    cx.require(set(_variants(F, PHRASE)) == {'Char', 'Field', 'Full'}, 'Phrase has other shapes than Char, Field, Full: %s' % _variants(F, PHRASE))
    protos = {
        'empty': [],
        'one': [('a', 'Literal', False, False)],
        'mixed': [(' ', 'SoftExpansion', False, False), ('*', 'HardExpansion', False, False), ('\\', 'Literal', False, True),
                  ('b', 'Literal', True, False)],
    }

    def mk(kind):
        return [_r11_char(*c) for c in protos[kind]]

    cases = [('Char(%r/%s)' % (c[0], c[1]), (lambda c=c: V(PHRASE + '::Char', _r11_char(*c)))) for c in protos['one'] + protos['mixed'][:2]]
    cases += [('Field(%s)' % k_, (lambda k_=k_: V(PHRASE + '::Field', mk(k_)))) for k_ in ('empty', 'one', 'mixed')]
    for n in range(4):
        for combo in itertools.product(('empty', 'one', 'mixed'), repeat=n):
            cases.append(('Full(%s)' % ','.join(combo), (lambda combo=combo: V(PHRASE + '::Full', [mk(k_) for k_ in combo]))))
    failures = {}
    for label, make in cases:
        phrase = make()
        before = [[freeze(c) for c in f] for f in _r11_fields(phrase)]
        it = _r11_interp(F, INIT + 'word::')
        env = {pid: phrase}
        try:
            it.ev(h['body'], env)
        except _Return:
            pass
        got = _r11_fields(env[pid])
        cx.cellcount(1)
        bad = None
        kind = 'structure'
        if got is None:
            bad = 'the result is not a phrase'
        elif len(got) != len(before):
            bad = 'the phrase has %d field(s) afterwards instead of %d' % (len(got), len(before))
        else:
            for i, (g, bf) in enumerate(zip(got, before)):
                g = [dict(freeze(c)[2]) if isinstance(c, MutStruct) else None for c in g]
                if any(c is None for c in g):
                    bad = 'field %d contains something that is not an AttrChar' % i
                    break
                mark = {'value': '"', 'origin': V(ORIGIN + '::Literal'), 'is_quoted': False, 'is_quoting': True}
                if len(g) < 2 or g[0] != mark or g[-1] != mark:
                    bad = 'field %d (%s) is not enclosed in the quoting characters `"`' % (i, 'empty' if not bf else '%d characters' % len(bf))
                    break
                inner = g[1:-1]
                if len(inner) != len(bf):
                    bad = 'field %d has %d characters between the marks instead of %d' % (i, len(inner), len(bf))
                    break
                for c, o in zip(inner, bf):
                    o = dict(o[2])
                    if (c['value'], c['origin'], c['is_quoting']) != (o['value'], o['origin'], o['is_quoting']) or \
                            (not c['is_quoting'] and c['is_quoted'] is not True):
                        bad = 'in field %d the character %r comes back as %s' % (i, o['value'], _show_chars([freeze(MutStruct(ATTRCHAR, c))]))
                        if (c['value'], c['origin'], c['is_quoting']) == (o['value'], o['origin'], o['is_quoting']):
                            kind = 'unquoted'
                        break
                if bad:
                    break
        if bad:
            failures.setdefault(label.split('(')[0], []).append((label, bad, _r11_show(got), kind))
    return failures

RS.rules.sort(key=lambda r: r.id)
RS.explanation += ' (R11) double_quote is evaluated (HIR interpreter, private helpers of its module evaluated in place) on Phrase::Char, Phrase::Field and Phrase::Full with every combination of 0-3 empty / one-character / mixed-attribute fields: the number of fields is unchanged and every field, empty ones included, comes back as quoting `"`, the same characters with is_quoted set, quoting `"`, so "$@" keeps one field per positional parameter.'
