"""C07 - quoted output reads back verbatim; state listings recreate the state.

Structural clauses decided here (see DESIGN.md 4/C07):
  R1  the quoter's character set covers every character the lexer / pattern parser treats specially, and every
      positional rule of str_needs_quoting leads to "needs quoting"
  R2  quoter and lexer use the same predicate for blanks (char::is_whitespace)
  R3  the double-quote escape set of the quoter equals the lexer's escapable set; branch guards of Display
  R4  listing printers format user text only through Quoted / QuotedValue (or closed vocabularies)
  R5  option names printed by `set +o` are the inverse of the table that parses them
Not decided: round trip of particular strings, evaluation of listings."""
import re

from engine import RuleSet
import mirq as Q
import hirq as H
import pp

RS = RuleSet(
    'C07',
    explanation=(
        'Set-inclusion, table and taint rules across the two separately written components (quoter yash-quote, lexer '
        'yash-syntax) and the listing printers: every character that the operator trie, the word/text lexer, the '
        'double-quote lexer or the top level of the pattern parser treats specially is in the literal set of '
        'char_needs_quoting (all extracted from the compiled HIR, nothing transcribed except `=`); each positional rule '
        '(empty, leading # ~, :~, {..}, [..]) returns true on its positive edge; the quoter falls back to the same '
        'char::is_whitespace the lexer uses for blanks; inside double quotes the quoter escapes exactly the set the '
        'lexer treats as escapable there, single quotes are used only when the text has no single quote, bare output '
        'only when str_needs_quoting said no; in the listing printers every formatted argument is Quoted, QuotedValue, '
        'a closed-vocabulary type, a string literal (or a choice between literals), a PrintContext field, or a '
        'reviewed site; the option-name table used for parsing is sorted and is the inverse of Option::long_name.'),
    not_decided='round trip of particular strings; behaviour of listings when evaluated (attribute semantics, function '
                'bodies: C06); names that cannot be re-read even when quoted (reserved words as function names)',
    trusted=['`=` needs quoting wherever it occurs (assignment words): transcribed in rules/C07.py'],
    assumptions=['the lexer functions named in rules/C07.py are the ones that give characters a meaning at word level'],
)

QUOTE = 'yash_quote::'
LEX = 'yash_syntax::parser::lex::'
WORD_UNIT = LEX + "word::<impl yash_syntax::parser::lex::core::WordLexer<'_, '_>>::word_unit_dyn"
TEXT_UNIT = LEX + "text::<impl yash_syntax::parser::lex::core::WordLexer<'_, '_>>::text_unit_dyn"
DQ_ESCAPABLE = LEX + "word::<impl yash_syntax::parser::lex::core::Lexer<'_>>::double_quote::{closure#0}::is_escapable"
DQ_DELIM = LEX + "word::<impl yash_syntax::parser::lex::core::Lexer<'_>>::double_quote::{closure#0}::is_delimiter"
IS_BLANK = LEX + 'core::is_blank'
IS_DELIM = LEX + 'token::is_token_delimiter_char'
FN_ATOM_PARSE = 'yash_fnmatch::ast::parse::<impl yash_fnmatch::ast::Atom>::parse'
DISPLAY_QUOTED = "<yash_quote::Quoted<'_> as core::fmt::Display>::fmt"
IS_WS = 'core::char::methods::<impl char>::is_whitespace'


# ------------------------------------------------------------------ helpers
def _pat_chars(p):
    k = p.get('k')
    if k == 'por':
        out = set()
        for a in p['alts']:
            out |= _pat_chars(a)
        return out
    if k == 'pexpr' and p['e'].get('k') == 'lit' and p['e'].get('t') == 'char':
        return {p['e']['v']}
    if k in ('ptuplestruct',):
        out = set()
        for s in p.get('sub') or []:
            out |= _pat_chars(s)
        return out
    if k == 'bind' and p.get('sub'):
        return _pat_chars(p['sub'])
    return set()


def _char_predicate(h):
    """For `fn(c: char) -> bool { match c { lits => true, _ => fallback } }` (also what matches! expands to):
    (set of literals mapped to true, fallback expression). None if the shape is different."""
    ms = [m for m in H.matches_in(h['body']) if (m.get('sty') or '').lstrip('&') == 'char']
    if len(ms) != 1:
        return None
    true_set, fallback = set(), None
    for arm in ms[0]['arms']:
        if arm.get('guard'):
            return None
        body = H.peel(arm['body'])
        if arm['pat'].get('k') == 'wild' or (arm['pat'].get('k') == 'bind' and not arm['pat'].get('sub')):
            fallback = body
            continue
        cs = _pat_chars(arm['pat'])
        if not cs or H.lit_value(body) is not True:
            return None
        true_set |= cs
    return true_set, fallback


def _all_char_literals(h):
    """Every char literal in a function: patterns and expressions (closures included)."""
    out = set()
    for x in H.walk(h['body']):
        if x.get('k') == 'lit' and x.get('t') == 'char':
            out.add(x['v'])
        if x.get('k') == 'match':
            for arm in x['arms']:
                out |= _deep_pat_chars(arm['pat'])
        if x.get('k') == 'letexpr' and x.get('pat'):
            out |= _deep_pat_chars(x['pat'])
    return out


def _deep_pat_chars(p):
    out = set()
    if not isinstance(p, dict):
        return out
    if p.get('k') == 'pexpr' and p['e'].get('k') == 'lit' and p['e'].get('t') == 'char':
        out.add(p['e']['v'])
    for key in ('sub', 'alts'):
        v = p.get(key)
        if isinstance(v, list):
            for s in v:
                out |= _deep_pat_chars(s)
        elif isinstance(v, dict):
            out |= _deep_pat_chars(v)
    for f in p.get('fields') or []:
        out |= _deep_pat_chars(f[1])
    return out


def _loc(h, node=None):
    return '%s:%s' % (h['file'], (node or {}).get('line', h['line']))


def _const_text(o):
    return o.get('c') if isinstance(o, dict) and 'c' in o and 'cp' not in o and 'mv' not in o else None




# ------------------------------------------------------------------ evaluation of the two character predicates (shape-independent)
import mireval as ME
EVAL_DOMAIN = sorted(set(range(0, 0x250)) | ME.WHITE_SPACE | {0x3042, 0x1F600, 0xFEFF, 0x200B})


def _eval_char_pred(F, fn):
    """{code point: bool} of a `fn(char) -> bool` of the workspace over EVAL_DOMAIN, or None when the evaluator cannot decide."""
    try:
        return {c: bool(ME.call(F, fn, [ME.char(c)])) for c in EVAL_DOMAIN}
    except ME.Undecidable:
        return None


def _quoted_chars(F, h):
    """(set of characters char_needs_quoting answers true for, fallback expression or None, how it was obtained)."""
    pred = _char_predicate(h)
    if pred is not None:
        return pred[0], pred[1], 'literal-set match'
    table = _eval_char_pred(F, QUOTE + 'char_needs_quoting')
    if table is None:
        return None
    return {chr(c) for c, v in table.items() if v and c < 0x80}, None, 'evaluated on %d characters' % len(table)


# ------------------------------------------------------------------ R1
@RS.rule('C07.R1', 'K-CONST', "char_needs_quoting covers every character the lexer and the pattern parser treat specially; positional rules return true")
def r1(cx):
    F = cx.F
    h = F.hir_of(QUOTE + 'char_needs_quoting')
    cx.fn(QUOTE + 'char_needs_quoting')
    pred = _quoted_chars(F, h)
    cx.require(pred is not None, 'char_needs_quoting is neither a literal-set match on its argument nor evaluable')
    quoted, fallback, how = pred
    cx.site('char_needs_quoting (%s): %s' % (how, ''.join(sorted(quoted)).encode('unicode_escape').decode()))
    cx.cellcount(len(quoted))
    sources = {}
    # operator characters: first-level keys of the operator trie
    ops = H.const_eval(F.hir_of(LEX + 'op::OPERATORS')['body'])
    cx.require(isinstance(ops, tuple) and ops[0] == 'ctor' and isinstance(ops[2][0], list), 'operator trie OPERATORS not evaluable')
    keys = {e[2]['key'] for e in ops[2][0] if isinstance(e, tuple) and e[0] == 'struct'}
    cx.require(len(keys) >= 7, 'operator trie has implausibly few first-level keys: %r' % sorted(keys))
    sources['operator (lex::op::OPERATORS)'] = keys
    # is_operator_char really consults that trie
    ioc = F.hir_of(LEX + 'op::is_operator_char')
    cx.require(any(H.path_def(x) == LEX + 'op::OPERATORS' for x in H.walk(ioc['body'])), 'is_operator_char does not consult OPERATORS')
    for fn, label in ((WORD_UNIT, 'word lexer (word_unit)'), (TEXT_UNIT, 'text lexer (text_unit)')):
        sources[label] = _all_char_literals(F.hir_of(fn))
        cx.fn(fn)
    esc = _char_predicate(F.hir_of(DQ_ESCAPABLE))
    cx.require(esc is not None and H.lit_value(esc[1]) is False, 'double_quote::is_escapable is not a literal-set predicate')
    sources['escapable inside double quotes'] = esc[0]
    delim = _all_char_literals(F.hir_of(DQ_DELIM))
    sources['double-quote delimiter'] = delim
    glob = set()
    ap = F.hir_of(FN_ATOM_PARSE)
    for m in H.matches_in(ap['body']):
        for arm in m['arms']:
            p = arm['pat']
            if p.get('k') == 'ptuplestruct' and (p['p'].get('def') or '').endswith('PatternChar::Normal'):
                glob |= _pat_chars(p)
    cx.require({'?', '*', '['} <= glob, 'top-level pattern characters of yash-fnmatch not found (%r)' % sorted(glob))
    sources['pattern operator (fnmatch Atom::parse)'] = glob - {'['}      # `[` is handled positionally, below
    sources['assignment'] = {'='}
    loc = _loc(h)
    for label, chars in sources.items():
        cx.site('%s: %s' % (label, ''.join(sorted(chars)).encode('unicode_escape').decode()))
        cx.cellcount(len(chars))
        for c in sorted(chars - quoted):
            cx.violation(QUOTE + 'char_needs_quoting', 'unquoted-special:%r' % c,
                         'the character %r is special to the shell (%s) but char_needs_quoting does not list it: a string '
                         'containing it is printed bare and reads back as something else' % (c, label), loc=loc)
    cx.sample({'quoted': ''.join(sorted(quoted)), 'sources': {k: ''.join(sorted(v)) for k, v in sources.items()}})
    # positional rules
    body = F.body(QUOTE + 'str_needs_quoting')
    cx.fn(body.fn)
    du = Q.DefUse(body)
    false_ret = [b for b, j, s in body.stmts() if s['k'] == 'assign' and s['lhs']['l'] == 0 and not s['lhs'].get('p')
                 and s['rv']['k'] == 'use' and _const_text(s['rv']['o']) == 'false']
    cx.require(false_ret, 'str_needs_quoting has no `false` result')

    def true_edges_of(org_pred):
        out = []
        for b in sorted(body.live_blocks()):
            ec = Q.edge_condition(F, body, du, b)
            if ec is None:
                continue
            org, labels = ec
            if org_pred(org):
                for tgt, labs in labels.items():
                    if ('bool', True) in labs:
                        out.append((b, tgt))
        return out

    def is_call(org, pats, const=None, fnarg=None):
        if org['k'] != 'call' or not Q.callee_is(org['t'], pats):
            return False
        if const is not None and not any(_const_text(a) == const for a in org['t']['a']):
            return False
        if fnarg is not None and not any(a.get('fn') == fnarg for a in org['t']['a']):
            return False
        return True

    def is_eq(org, const):
        return org['k'] == 'binop' and org['rv']['op'] == 'Eq' and const in (_const_text(org['rv']['a']), _const_text(org['rv']['b']))

    tests = [
        ('empty string', lambda o: is_call(o, ['core::str::<impl str>::is_empty'])),
        ('leading #', lambda o: is_eq(o, "'#'")),
        ('leading ~', lambda o: is_eq(o, "'~'")),
        ('any special character', lambda o: is_call(o, ['*::Iterator::any'], fnarg=QUOTE + 'char_needs_quoting')),
        (':~', lambda o: is_call(o, ['core::str::<impl str>::contains'], const='":~"')),
        ('{ before }', lambda o: is_call(o, ['core::str::<impl str>::contains'], const="'}'")),
        ('[ before ]', lambda o: is_call(o, ['core::str::<impl str>::contains'], const="']'")),
    ]
    for label, pred_ in tests:
        edges = true_edges_of(pred_)
        cx.site('str_needs_quoting: test "%s": %d positive edge(s)' % (label, len(edges)))
        if not edges:
            # deleted, or written in a shape this rule does not read? If what the test needs is still mentioned by the function
            # (the character / string constant, the predicate) the shape is not understood: no verdict rather than an alarm.
            hs = F.hir_of(QUOTE + 'str_needs_quoting')
            lits = {x.get('v') for x in H.walk(hs['body']) if x.get('k') == 'lit'} | _all_char_literals(hs)
            mentions = {
                'empty string': any((x.get('def') or '').endswith('::is_empty') or (x.get('def') or '').endswith('::next') for x in H.calls(hs['body'])),
                'leading #': '#' in lits, 'leading ~': '~' in lits, ':~': ':~' in lits, '{ before }': '}' in lits, '[ before ]': ']' in lits,
                'any special character': any(H.path_def(x) == QUOTE + 'char_needs_quoting' or x.get('def') == QUOTE + 'char_needs_quoting'
                                             for x in H.walk(hs['body'])),
            }
            cx.require(not mentions.get(label), 'str_needs_quoting: the test for %s is written in a shape this rule does not read' % label)
            cx.violation(body.fn, 'positional-rule-missing:%s' % label, 'str_needs_quoting no longer tests for %s: such a string is '
                         'printed bare' % label, loc=body.loc(body.d))
            continue
        for u, v in edges:
            reach = body.reachable(v)
            if any(fb in reach for fb in false_ret):
                cx.violation(body.fn, 'positional-rule-ignored:%s' % label, 'the positive outcome of the test for %s can still end in '
                             '"needs no quoting"' % label, loc=body.loc(body.term(u)))
    # the leading-character tests look at the FIRST character
    for c in ("'#'", "'~'"):
        for b, j, s in body.stmts():
            if s['k'] == 'assign' and s['rv']['k'] == 'binop' and s['rv']['op'] == 'Eq' and c in (_const_text(s['rv']['a']), _const_text(s['rv']['b'])):
                other = s['rv']['b'] if _const_text(s['rv']['a']) == c else s['rv']['a']
                org = du.origin(other)
                first = False
                if org['k'] == 'place' and any(isinstance(e, dict) and e.get('v') == 'Some' for e in org['pl'].get('p') or []):
                    nxt = Q.value_source(body, du, {'cp': {'l': org['pl']['l']}})
                    if nxt is not None and Q.callee_is(nxt, ['*::Iterator::next']):
                        it = du.origin(nxt['a'][0])
                        first = it['k'] == 'ref' and not it['pl'].get('p') and \
                            (lambda d: d is not None and d[1] == 't' and Q.callee_is(d[2], ['core::str::<impl str>::chars']))(du.single_def(it['pl']['l']))
                cx.site('str_needs_quoting: %s compared with the first character: %s' % (c, first))
                if not first:
                    cx.violation(body.fn, 'not-first-char:%s' % c.strip("'"), '%s is not compared with the first character of the string' % c,
                                 loc=body.loc(s))


# ------------------------------------------------------------------ R2
@RS.rule('C07.R2', 'K-CALLERS', 'quoter and lexer classify blanks with the same predicate (char::is_whitespace)')
def r2(cx):
    F = cx.F
    h = F.hir_of(QUOTE + 'char_needs_quoting')
    pred = _quoted_chars(F, h)
    cx.require(pred is not None, 'char_needs_quoting is neither a literal-set match on its argument nor evaluable')
    quoted, fallback, how = pred
    cx.fn(QUOTE + 'char_needs_quoting')
    fb_ok = fallback is not None and fallback.get('k') == 'mcall' and fallback.get('def') == IS_WS and H.peel(fallback['recv']).get('k') == 'local'
    if fallback is None:
        # another shape: decide the agreement by evaluating both predicates on the same characters
        qt, bt = _eval_char_pred(F, QUOTE + 'char_needs_quoting'), _eval_char_pred(F, IS_BLANK)
        cx.require(qt is not None and bt is not None, 'char_needs_quoting / is_blank cannot be evaluated (shape not understood)')
        bad = sorted(c for c in EVAL_DOMAIN if bt[c] and not qt[c])
        fb_ok = not bad
        cx.site('char_needs_quoting (%s) vs lex::is_blank: blanks left unquoted: %s' % (how, [hex(c) for c in bad] or 'none'))
    cx.site('char_needs_quoting: fallback arm is %s' % ((fallback or {}).get('def') or (fallback or {}).get('k') or how))
    # what the lexer calls a blank
    hb = F.hir_of(IS_BLANK)
    cx.fn(IS_BLANK)
    lex_preds = sorted({x.get('def') for x in H.calls(hb['body']) if 'char::methods' in (x.get('def') or '')})
    cx.site('lex::is_blank uses %s' % lex_preds)
    cx.require(lex_preds, 'is_blank calls no char classification method')
    if lex_preds != [IS_WS] or not fb_ok:
        cx.violation(QUOTE + 'char_needs_quoting', 'blank-predicate', 'the lexer splits words at %s but the quoter falls back to %s: a '
                     'blank known to one and not the other is printed bare and splits the word on re-reading'
                     % (lex_preds, (fallback or {}).get('def') or 'a constant'), loc=_loc(h, fallback))
    # characters is_blank excludes by literal must be quoted explicitly or by the fallback ('\n' is whitespace too)
    excl = {x['v'] for x in H.walk(hb['body']) if x.get('k') == 'lit' and x.get('t') == 'char'}
    cx.site('lex::is_blank excludes %r' % sorted(excl))
    # the token delimiter predicate is operator-or-blank
    hd = F.hir_of(IS_DELIM)
    cx.fn(IS_DELIM)
    used = sorted({x.get('def') for x in H.calls(hd['body'])})
    cx.site('is_token_delimiter_char = %s' % used)
    if set(used) != {LEX + 'op::is_operator_char', IS_BLANK}:
        cx.violation(IS_DELIM, 'delimiter-predicate', 'the token delimiter predicate is no longer operator-or-blank (%s): R1/R2 compare '
                     'the quoter with those two sets' % used, loc=_loc(hd))
    # the word parser of normal tokens uses that predicate
    n = 0
    for fn, hh in F.hir.items():
        if fn.startswith('yash_syntax::parser::lex::token::'):
            for x in H.walk(hh['body']):
                if H.path_def(x) == IS_DELIM:
                    n += 1
                    cx.site('%s passes is_token_delimiter_char to the word lexer' % fn)
    cx.floor(n, 1, 'uses of is_token_delimiter_char in lex::token')


def _check_escape_loop(cx, F, body, du, bs, writes, hir_set):
    """The backslash is written exactly for the characters of the escape set, directly before that character."""
    bb, bt = bs
    # (1) the backslash write sits on the TRUE edge of a bool temporary ...
    flag = None
    for org, lab, e in Q.dominating_conditions(F, body, du, bb):
        if org['k'] == 'place' and not org['pl'].get('p') and lab == ('bool', True) and body.locals[org['pl']['l']].get('ty') == 'bool':
            flag = org['pl']['l']
    if flag is None:
        cx.violation(DISPLAY_QUOTED, 'backslash-unconditional', 'the backslash is not written under the escape-set test', loc=body.loc(bt))
        return
    # (2) ... which is true exactly on the listed values of a switch on the character
    t_blocks = {b for b, j, s in body.stmts() if s['k'] == 'assign' and s['lhs']['l'] == flag and _const_text(s['rv'].get('o', {})) == 'true'}
    f_blocks = {b for b, j, s in body.stmts() if s['k'] == 'assign' and s['lhs']['l'] == flag and _const_text(s['rv'].get('o', {})) == 'false'}
    sw = [(b, body.term(b)) for b in sorted(body.live_blocks()) if body.term(b)['k'] == 'switch' and body.term(b).get('dty') == 'char']
    if len(sw) != 1 or not t_blocks or not f_blocks:
        cx.violation(DISPLAY_QUOTED, 'escape-test-shape', 'escape-set test not recognised in the compiled code', loc=body.loc(bt))
        return
    sb, st = sw[0]
    listed = set()
    for v, tgt in st['ts']:
        reach = body.reachable(tgt, removed=f_blocks | {bb})
        if reach & t_blocks and not (body.reachable(tgt, removed=t_blocks) & f_blocks):
            listed.add(chr(v))
    else_true = bool(body.reachable(st['else'], removed=f_blocks) & t_blocks) and st['else'] not in [t for v, t in st['ts']]
    cx.site('Display for Quoted (compiled): backslash before %s' % ''.join(sorted(listed)))
    if listed != set(hir_set) or else_true:
        cx.violation(DISPLAY_QUOTED, 'escape-set-compiled', 'compiled escape set %r differs from the source-level set %r' % (sorted(listed), sorted(hir_set)),
                     loc=body.loc(st))
    # (3) the character tested is the one written next, with nothing in between
    cw = [(b, t) for b, t in writes if pp.callee(t).endswith('write_char') and _const_text(t['a'][1]) is None]
    if len(cw) != 1 or Q.operand_local(st['d']) is None:
        cx.violation(DISPLAY_QUOTED, 'char-write', 'expected one write of the current character', loc=body.loc(bt))
        return
    cb, ct = cw[0]
    same = Q.operand_name(body, du, ct['a'][1]) == Q.operand_name(body, du, st['d'])
    cx.site('Display for Quoted (compiled): backslash directly precedes write_char(%s): %s' % (Q.operand_name(body, du, ct['a'][1]), same))
    if not same:
        cx.violation(DISPLAY_QUOTED, 'char-identity', 'the character tested against the escape set is not the one written', loc=body.loc(ct))
    if sb in body.reachable(cb) and cb not in body.reachable(sb):
        cx.violation(DISPLAY_QUOTED, 'char-order', 'the character is written before it is tested', loc=body.loc(ct))


# ------------------------------------------------------------------ R3
@RS.rule('C07.R3', 'K-TABLE', 'Display for Quoted: double-quote escapes = lexer escapable set; single quotes only without \'; bare only if no quoting needed')
def r3(cx):
    F = cx.F
    h = F.hir_of(DISPLAY_QUOTED)
    cx.fn(DISPLAY_QUOTED)
    pred = _char_predicate(h)
    cx.require(pred is not None and H.lit_value(pred[1]) is False, 'escape test in Display for Quoted is not a literal-set test')
    q_esc = pred[0]
    lex = _char_predicate(F.hir_of(DQ_ESCAPABLE))
    cx.require(lex is not None, 'double_quote::is_escapable is not a literal-set predicate')
    cx.fn(DQ_ESCAPABLE)
    cx.site('quoter escapes inside "": %s; lexer accepts backslash before: %s' % (''.join(sorted(q_esc)), ''.join(sorted(lex[0]))))
    cx.cellcount(len(q_esc | lex[0]))
    for c in sorted(q_esc - lex[0]):
        cx.violation(DISPLAY_QUOTED, 'escape-not-escapable:%r' % c, 'the quoter writes \\%s inside double quotes but the lexer keeps that '
                     'backslash (not escapable there): the value gains a backslash' % c, loc=_loc(h))
    for c in sorted(lex[0] - q_esc):
        cx.violation(DISPLAY_QUOTED, 'special-not-escaped:%r' % c, '%r is special inside double quotes for the lexer but the quoter does '
                     'not escape it' % c, loc=_loc(h))
    # MIR: structure of fmt
    body = F.body(DISPLAY_QUOTED)
    du = Q.DefUse(body)
    wr = [(b, t) for b, t in body.calls() if Q.callee_is(t, [re.compile(r'^core::fmt::(Write::|Formatter::<.*>::)write_(str|char|fmt)$'),
                                                             '*::Write::write_str', '*::Write::write_char', '*::Write::write_fmt'])]
    cx.floor(len(wr), 5, 'writes in Display for Quoted')

    def field_cond(block, field):
        for org, lab, e in Q.dominating_conditions(F, body, du, block):
            if org['k'] == 'place' and lab[0] == 'bool' and any(isinstance(x, dict) and x.get('f') == field for x in org['pl'].get('p') or []):
                return lab[1]
        return None

    def call_cond(block, pats, const):
        for org, lab, e in Q.dominating_conditions(F, body, du, block):
            if org['k'] == 'call' and Q.callee_is(org['t'], pats) and any(_const_text(a) == const for a in org['t']['a']) and lab[0] == 'bool':
                return lab[1]
        return None
    seen = set()
    for b, t in wr:
        name = pp.callee(t).split('::')[-1]
        nq = field_cond(b, 'needs_quoting')
        sq = call_cond(b, ['core::str::<impl str>::contains'], "'\\''")
        arg = t['a'][1] if len(t['a']) > 1 else {}
        txt = _const_text(arg)
        cx.site('Display for Quoted: %s(%s) under needs_quoting=%s, contains(\')=%s at %s' % (name, txt or Q.operand_name(body, du, arg), nq, sq, body.loc(t)))
        if name == 'write_str' and txt is None:
            seen.add('bare')
            if nq is not False:
                cx.violation(DISPLAY_QUOTED, 'bare-branch', 'the raw text is written bare on a path where needs_quoting is not false', loc=body.loc(t))
        elif name == 'write_fmt':
            seen.add('single')
            if nq is not True or sq is not False:
                cx.violation(DISPLAY_QUOTED, 'single-quote-branch', 'single quotes are used although the text may contain a single quote '
                             '(or needs no quoting)', loc=body.loc(t))
        elif name == 'write_char':
            seen.add('double')
            if nq is not True or sq is not True:
                cx.violation(DISPLAY_QUOTED, 'double-quote-branch:%s' % (txt or 'char'), 'the double-quote form is entered on an unexpected path',
                             loc=body.loc(t))
    for k in ('bare', 'single', 'double'):
        if k not in seen:
            cx.violation(DISPLAY_QUOTED, 'branch-missing:%s' % k, 'the %s form of quoting is gone' % k, loc=body.loc(body.d))
    # the single-quote form wraps the raw text in exactly '...'
    for x in H.walk(h['body']):
        if x.get('k') == 'lit' and x.get('t') == 'bytes':
            v = x['v']
            cx.site('Display for Quoted: format template %r' % v)
            if v.count("'") != 2:
                cx.violation(DISPLAY_QUOTED, 'single-quote-template', 'the single-quote form does not put exactly one quote on each side', loc=_loc(h, x))
    # in the double-quote form: backslash only on the escape set edge, immediately before the character
    bs = [(b, t) for b, t in wr if _const_text(t['a'][1] if len(t['a']) > 1 else {}) == "'\\\\'"]
    dq = [(b, t) for b, t in wr if _const_text(t['a'][1] if len(t['a']) > 1 else {}) == "'\"'"]
    cx.site('Display for Quoted: %d backslash write(s), %d double-quote writes' % (len(bs), len(dq)))
    if len(dq) != 2:
        cx.violation(DISPLAY_QUOTED, 'dquote-delimiters', 'expected an opening and a closing double quote (found %d)' % len(dq), loc=body.loc(body.d))
    if len(bs) != 1:
        cx.violation(DISPLAY_QUOTED, 'backslash-writes', 'expected one conditional backslash write (found %d)' % len(bs), loc=body.loc(body.d))
    else:
        _check_escape_loop(cx, F, body, du, bs[0], wr, q_esc)
    # Quoted values are made only by From<&str>, with needs_quoting = str_needs_quoting(raw)
    n = 0
    for bd in F.bodies.values():
        for b, j, s in Q.find_aggregates(bd, re.compile(r'^yash_quote::Quoted$')):
            n += 1
            cx.site('%s constructs Quoted at %s' % (bd.fn, bd.loc(s)))
            d2 = Q.DefUse(bd)
            ops = s['rv']['ops']
            fields = s['rv'].get('fields') or []
            ok = bd.fn == "<yash_quote::Quoted<'a> as core::convert::From<&'a str>>::from"
            src = None
            for o in ops:
                org = d2.origin(o)
                if org['k'] == 'call' and Q.callee_is(org['t'], [QUOTE + 'str_needs_quoting']):
                    src = org['t']
            raw_same = src is not None and any(Q.operand_name(bd, d2, o) == Q.operand_name(bd, d2, src['a'][0]) for o in ops if d2.origin(o)['k'] != 'call')
            if not (ok and src is not None and raw_same):
                cx.violation(bd.fn, 'quoted-constructed', 'a Quoted value is built without needs_quoting = str_needs_quoting(raw) for the same raw',
                             loc=bd.loc(s))
    cx.floor(n, 1, 'constructions of Quoted')


# ------------------------------------------------------------------ R4
FMT_ARG = re.compile(r"^core::fmt::rt::Argument::<'_>::new_(\w+)$")
PRINTERS = {
    'yash_builtin::alias::semantics::print': 'alias',
    'yash_builtin::typeset::print_variables::print_one': 'typeset -p / export -p / readonly -p',
    'yash_builtin::typeset::print_functions::print_one': 'typeset -fp',
    'yash_builtin::set::main': 'set (variables), set -o, set +o',
    'yash_builtin::trap::display_trap': 'trap',
    'yash_builtin::umask::Command::execute': 'umask',
}
QUOTING_TYPES = {"yash_quote::Quoted<'_>", "yash_env::variable::value::QuotedValue<'_>"}
# types whose Display output is a closed vocabulary (never user text), one reason each
CLOSED_TYPES = {
    'yash_env::option::Option': 'long option name from a fixed table (R5)',
    'yash_env::option::State': '"on" / "off"',
    "yash_builtin::typeset::print_variables::AttributeOption<'_>": 'prints "-<short> " for option characters of the static OptionSpec table (checked below)',
    'alloc::rc::Rc<dyn yash_env::function::FunctionBodyObject<S>>': 'function body printed by the syntax printer (re-readability is C06)',
    'u8': 'number', 'u16': 'number', 'u32': 'number', 'u64': 'number', 'usize': 'number', 'i32': 'number', 'i64': 'number',
}
TEXT_TYPES = {'&str', 'alloc::string::String', '&alloc::string::String', "alloc::borrow::Cow<'_, str>", 'char'}
# text arguments that are neither literals nor PrintContext fields: (printer, variable) -> (how it is checked, reason)
REVIEWED_TEXT = {
    'yash_builtin::set::main': [('isname', 'only names accepted by IsName (identifier syntax) are listed')],
    'yash_builtin::typeset::print_functions::print_one': [('shorts', 'built from OptionSpec::short characters only')],
    'yash_builtin::typeset::print_variables::print_one': [('tostring:AttributeOption', 'AttributeOption rendered to a String')],
    'yash_builtin::trap::display_trap': [('call:Condition::to_string', 'signal / condition name from a fixed vocabulary')],
}


def _fmt_arg_place(body, du, t):
    """The place whose reference is formatted by Argument::new_xxx(&args.N) (the N-th entry of the args tuple)."""
    org = du.origin(t['a'][0])
    for _ in range(6):
        if org['k'] != 'ref':
            return None, org
        pl = org['pl']
        proj = pl.get('p') or []
        fields = [e for e in proj if isinstance(e, dict) and 'f' in e]
        d = du.single_def(pl['l'])
        if fields and d is not None and d[1] != 't' and d[2]['rv']['k'] == 'agg' and d[2]['rv'].get('ak') == 'tuple':
            op = d[2]['rv']['ops'][int(fields[0]['f'])]
            org = du.origin(op)
            continue
        return pl, org
    return None, org


def _literal_choice(body, du, l):
    defs = du.defs.get(l, [])
    if not defs:
        return None
    vals = []
    for blk, idx, node in defs:
        if idx == 't' or node['k'] != 'assign' or node['lhs'].get('p'):
            return None
        rv = node['rv']
        c = None
        if rv['k'] == 'use':
            c = _const_text(rv['o'])
            if c is None and Q.operand_local(rv['o']) is not None:
                inner = _literal_choice(body, du, Q.operand_local(rv['o']))
                if inner is None:
                    return None
                vals += inner
                continue
        elif rv['k'] == 'ref' and not rv['pl'].get('p', [])[1:]:
            inner = _literal_choice(body, du, rv['pl']['l'])
            if inner is None:
                return None
            vals += inner
            continue
        if c is None:
            return None
        vals.append(c)
    return vals


def _isname_filtered(F, body, du, local):
    """`local` is the first component of an item of `.filter(closure).collect()`, where the closure returns what the
    IsName function says about the first component of the item."""
    good = set()
    for b, t in Q.find_calls(body, ['*::Iterator::filter']):
        org = du.origin(t['a'][1])
        if org['k'] != 'agg' or org['rv'].get('ak') != 'closure':
            continue
        cb = F.bodies.get(org['rv'].get('def'))
        if cb is None:
            continue
        cdu = Q.DefUse(cb)
        ind = [(bb, tt) for bb, tt in cb.calls() if 'indirect' in tt['f'] and tt['dest']['l'] == 0]
        tests_first = False
        for bb, tt in ind:
            for a in tt['a']:
                l = Q.operand_local(a)
                seen = set()
                while l is not None and l not in seen:
                    seen.add(l)
                    d = cdu.single_def(l)
                    if d is None or d[1] == 't' or d[2]['rv']['k'] not in ('ref', 'use'):
                        break
                    pl = d[2]['rv'].get('pl') or Q.operand_place(d[2]['rv']['o'])
                    if pl is None:
                        break
                    fs = [e['f'] for e in pl.get('p') or [] if isinstance(e, dict) and 'f' in e]
                    if pl['l'] == 2 and fs == ['0']:
                        tests_first = True
                    l = pl['l']
        captured = False
        for o in org['rv']['ops']:
            oo = du.origin(o)
            if oo['k'] == 'ref':
                d = du.single_def(oo['pl']['l'])
                if d is not None and d[1] != 't' and d[2]['rv']['k'] == 'ref' and 'IsName' in body.locals[d[2]['rv']['pl']['l']]['ty']:
                    captured = True
        if tests_first and captured:
            good.add(t['dest']['l'])
    if not good:
        return False
    # backwards from the printed local to the filter result, through next / into_iter / collect only
    d = du.single_def(local)
    if d is None or d[1] == 't' or d[2]['rv']['k'] != 'use':
        return False
    pl = Q.operand_place(d[2]['rv']['o'])
    fs = [e['f'] for e in (pl or {}).get('p') or [] if isinstance(e, dict) and 'f' in e]
    if pl is None or fs[-1:] != ['0']:
        return False
    l = pl['l']
    for _ in range(10):
        if l in good:
            return True
        dd = du.single_def(l)
        if dd is None:
            return False
        if dd[1] == 't':
            if not Q.callee_is(dd[2], ['*::Iterator::next', '*::IntoIterator::into_iter', '*::Iterator::collect']):
                return False
            l = Q.operand_local(dd[2]['a'][0])
        else:
            rv = dd[2]['rv']
            p2 = rv.get('pl') if rv['k'] == 'ref' else (Q.operand_place(rv['o']) if rv['k'] == 'use' else None)
            if p2 is None:
                return False
            l = p2['l']
    return False


def _only_short_pushes(body, du, local):
    ok = True
    n = 0
    for b, t in body.calls():
        for a, ty in zip(t['a'], t.get('at') or []):
            if ty.startswith('&mut ') and _base(body, du, a) == local:
                n += 1
                if not Q.callee_is(t, ['alloc::string::String::push']):
                    ok = False
                else:
                    o = du.origin(t['a'][1])
                    if not (o['k'] == 'place' and any(isinstance(e, dict) and e.get('f') == 'short' for e in o['pl'].get('p') or [])):
                        ok = False
    return ok and n >= 1


def _base(body, du, operand):
    p = Q.operand_place(operand)
    for _ in range(8):
        if p is None:
            return None
        if body.locals[p['l']].get('name'):
            return p['l']
        d = du.single_def(p['l'])
        if d is None or d[1] == 't':
            return p['l']
        rv = d[2]['rv']
        if rv['k'] == 'ref':
            p = rv['pl']
        elif rv['k'] in ('use', 'cast'):
            p = Q.operand_place(rv['o'])
        else:
            return p['l']
    return p['l'] if p else None


@RS.rule('C07.R4', 'K-TAINT', 'listing printers format user text only through Quoted / QuotedValue; everything else is a literal or a closed vocabulary')
def r4(cx):
    F = cx.F
    n_q = 0
    for root, what in PRINTERS.items():
        bodies = F.logical(root)
        cx.fn(root)
        per = 0
        for body in bodies:
            du = None
            for b, t in body.calls():
                m = None
                for nme in Q.callee_names(t):
                    m = m or FMT_ARG.match(nme)
                if not m:
                    continue
                du = du or Q.DefUse(body)
                per += 1
                T = t['f'].get('ga') or '?'
                T0 = T[1:] if T.startswith('&') and T[1:] in CLOSED_TYPES else T
                pl, org = _fmt_arg_place(body, du, t)
                var = Q.operand_name(body, du, {'cp': pl}) if pl is not None else None
                desc = '%s [%s]: {%s} %s' % (root.replace('yash_builtin::', ''), what, m.group(1), T)
                if T in QUOTING_TYPES and m.group(1) == 'display':
                    n_q += 1
                    cx.site(desc + ' -> quoted')
                    continue
                if T0 in CLOSED_TYPES:
                    cx.site(desc + ' -> closed vocabulary (%s)' % CLOSED_TYPES[T0])
                    continue
                if T in TEXT_TYPES and m.group(1) == 'display':
                    # literal / choice between literals
                    lit = None
                    if org['k'] == 'const':
                        lit = [_const_text(org['o'])]
                    elif pl is not None and not pl.get('p'):
                        lit = _literal_choice(body, du, pl['l'])
                    if lit:
                        cx.site(desc + ' -> literal %s' % sorted(set(lit)))
                        continue
                    if pl is not None and any(isinstance(e, dict) and (e.get('adt') or '').endswith('typeset::PrintContext') for e in pl.get('p') or []):
                        f = [e['f'] for e in pl['p'] if isinstance(e, dict) and 'f' in e][-1]
                        cx.site(desc + ' -> PrintContext.%s (fixed per built-in)' % f)
                        continue
                    qsrc = Q.value_source(body, du, {'cp': pl}) if pl is not None else None
                    if qsrc is not None and Q.callee_is(qsrc, ['yash_quote::quote']):
                        n_q += 1
                        cx.site(desc + ' -> quoted by yash_quote::quote')
                        continue
                    # the text goes into a temporary string (format!) that is itself handed to the quoting function
                    tt = Q.forward_taint(body, {t['dest']['l']}, stop_calls=['yash_quote::quoted', 'yash_quote::quote'])
                    fmts = [(fb, ft) for fb, ft in body.calls() if Q.callee_is(ft, ['alloc::fmt::format', re.compile(r'^alloc::fmt::format(::format_inner)?$')])
                            and any((Q.operand_place(a) or {}).get('l') in tt for a in ft['a'])]
                    outs = [(fb, ft) for fb, ft in body.calls() if Q.callee_is(ft, [re.compile(r'::write_fmt$')])
                            and any((Q.operand_place(a) or {}).get('l') in tt for a in ft['a'])]
                    if fmts and not outs:
                        t2 = Q.forward_taint(body, {ft['dest']['l'] for _, ft in fmts},
                                             through_calls=[re.compile(r'Deref>::deref$|::as_str$|::borrow$|AsRef<.*>>::as_ref$|^core::hint::must_use$')])
                        if any(Q.callee_is(qt, ['yash_quote::quoted', 'yash_quote::quote']) and
                               any((Q.operand_place(a) or {}).get('l') in t2 for a in qt['a']) for _, qt in body.calls()):
                            n_q += 1
                            cx.site(desc + ' `%s` -> joined by format!, the joined text is given to yash_quote' % var)
                            continue
                    held = None
                    for how, why in REVIEWED_TEXT.get(root, []):
                        ok = False
                        d = du.single_def(pl['l']) if pl is not None and not pl.get('p') else None
                        if how == 'isname':
                            ok = T == '&str' and pl is not None and not pl.get('p') and _isname_filtered(F, body, du, pl['l'])
                        elif how == 'shorts':
                            ok = pl is not None and _only_short_pushes(body, du, pl['l'])
                        elif how.startswith('tostring:'):
                            ok = d is not None and d[1] == 't' and Q.callee_is(d[2], ['*::ToString::to_string']) and \
                                how.split(':')[1] in (d[2]['f'].get('self') or d[2]['f'].get('ga') or '')
                        elif how.startswith('call:'):
                            ok = d is not None and d[1] == 't' and pp.callee(d[2]).endswith(how.split(':', 1)[1])
                        if ok:
                            held = why
                    if held:
                        cx.site(desc + ' `%s` -> reviewed: %s' % (var, held))
                        continue
                    cx.site(desc + ' `%s` -> UNQUOTED TEXT' % var)
                    cx.violation(root, 'unquoted-text:%s' % (var or T), 'the %s listing prints the text `%s` (%s) without quoting: a value with '
                                 'blanks, quotes or operators is re-read as something else' % (what, var, T), loc=body.loc(t))
                    continue
                cx.site(desc + ' -> UNREVIEWED TYPE')
                cx.violation(root, 'unreviewed-type:%s' % T, 'the %s listing formats a value of type %s with {%s}; it is neither quoted nor a '
                             'reviewed closed vocabulary' % (what, T, m.group(1)), loc=body.loc(t))
            # text appended without formatting (push_str / push of non-literals)
            for b, t in body.calls():
                if Q.callee_is(t, ['alloc::string::String::push_str', 'alloc::string::String::push']) and body.root != 'yash_builtin::typeset::print_functions::print_one':
                    du = du or Q.DefUse(body)
                    c = du.origin(t['a'][1])
                    lit = c['k'] == 'const' or (c['k'] == 'ref' and _literal_choice(body, du, c['pl']['l']))
                    cx.site('%s: %s(%s)' % (root.replace('yash_builtin::', ''), pp.callee(t).split('::')[-1], 'literal' if lit else Q.operand_name(body, du, t['a'][1])))
                    if not lit:
                        cx.violation(root, 'appended-text', 'text is appended to the listing without going through the quoter', loc=body.loc(t))
        cx.require(per >= 1, 'printer %s formats nothing (anchor moved?)' % root)
    cx.floor(n_q, 8, 'Quoted / QuotedValue arguments in the listing printers')
    # QuotedValue quotes every element
    qb = "<yash_env::variable::value::QuotedValue<'_> as core::fmt::Display>::fmt"
    for body in F.logical(qb):
        cx.fn(body.fn)
        for b, t in body.calls():
            for nme in Q.callee_names(t):
                if FMT_ARG.match(nme):
                    cx.site('QuotedValue::fmt: {%s} %s' % (FMT_ARG.match(nme).group(1), t['f'].get('ga')))
    qcalls = [(bd, t) for bd in F.logical(qb) for b, t in bd.calls() if Q.callee_is(t, ['yash_quote::quoted'])]
    cx.site('QuotedValue::fmt: %d calls of yash_quote::quoted (scalar, array element)' % len(qcalls))
    if len(qcalls) < 2:
        cx.violation(qb, 'value-not-quoted', 'QuotedValue no longer quotes both scalar values and array elements', loc=None)
    # AttributeOption prints only "-<short> "
    ab = F.body("<yash_builtin::typeset::print_variables::AttributeOption<'_> as core::fmt::Display>::fmt")
    cx.fn(ab.fn)
    du = Q.DefUse(ab)
    for b, t in ab.calls():
        for nme in Q.callee_names(t):
            if FMT_ARG.match(nme):
                pl, org = _fmt_arg_place(ab, du, t)
                isshort = pl is not None and any(isinstance(e, dict) and e.get('f') == 'short' for e in pl.get('p') or [])
                cx.site('AttributeOption::fmt: {%s} %s from field short: %s' % (FMT_ARG.match(nme).group(1), t['f'].get('ga'), isshort))
                if not (isshort and t['f'].get('ga') == 'char'):
                    cx.violation(ab.fn, 'attribute-option-text', 'AttributeOption prints something other than option characters', loc=ab.loc(t))


# ------------------------------------------------------------------ R5
OPT = 'yash_env::option::Option'


@RS.rule('C07.R5', 'K-CONST', 'option names printed by `set +o` are the inverse of the (sorted) table that parses them')
def r5(cx):
    F = cx.F
    table, m = H.fn_match_table(F, OPT + '::long_name', OPT)
    cx.fn(OPT + '::long_name')
    names = {}
    for v, (i, body) in table.items():
        val = H.lit_value(body)
        cx.require(isinstance(val, str), 'long_name(%s) is not a string literal' % v)
        names[v] = val
        cx.cellcount(1)
    hp = F.hir_of('<yash_env::option::Option as core::str::traits::FromStr>::from_str::OPTIONS')
    cx.fn(hp['fn'])
    tbl = H.const_eval(hp['body'])
    cx.require(isinstance(tbl, list) and len(tbl) >= 10, 'FromStr OPTIONS table not evaluable')
    loc = _loc(hp)
    parsed = {}
    for name, opt in tbl:
        cx.cellcount(1)
        v = H.short(opt[1])
        if name in parsed:
            cx.violation(hp['fn'], 'duplicate:%s' % name, 'option name %s listed twice' % name, loc=loc)
        parsed[name] = v
    keys = [n for n, o in tbl]
    if keys != sorted(keys):
        bad = [b for a, b in zip(keys, keys[1:]) if a > b][0]
        cx.violation(hp['fn'], 'unsorted:%s' % bad, 'the table is searched with binary_search but is not sorted at %r: a full option name '
                     'printed by `set +o` is not found when the listing is read back' % bad, loc=loc)
    for v, n in sorted(names.items()):
        if parsed.get(n) != v:
            cx.violation(OPT + '::long_name', 'not-inverse:%s' % v, 'option %s is printed as %r, which parses to %s' % (v, n, parsed.get(n)),
                         loc=_loc(F.hir_of(OPT + '::long_name')))
    for n, v in sorted(parsed.items()):
        if names.get(v) != n:
            cx.violation(hp['fn'], 'not-inverse-name:%s' % n, 'name %r parses to %s, which is printed as %r' % (n, v, names.get(v)), loc=loc)
    # a printed name must not be readable as the negation of another option, nor be a prefix of "no"
    for n in sorted(parsed):
        if n.startswith('no') and n[2:] in parsed:
            cx.violation(hp['fn'], 'negation-clash:%s' % n, '%r is both an option and the negation of %r' % (n, n[2:]), loc=loc)
    cx.sample({'names': dict(list(sorted(names.items()))[:5])})
    # Display for Option is long_name; the printers use Display (R4 lists them as closed vocabulary)
    hd = F.hir_of('<yash_env::option::Option as core::fmt::Display>::fmt')
    cx.fn(hd['fn'])
    uses = [x for x in H.calls(hd['body']) if (x.get('def') or '') == OPT + '::long_name']
    cx.site('Display for Option calls long_name: %d' % len(uses))
    if len(uses) != 1:
        cx.violation(hd['fn'], 'display-not-long-name', 'Option is displayed by something other than long_name', loc=_loc(hd))
    # the parser of `-o name` / `+o name` reaches FromStr for Option
    pl = F.hir_of('yash_env::option::parse_long')
    cx.fn('yash_env::option::parse_long')
    fs = [x for x in H.walk(pl['body']) if (x.get('def') or H.path_def(x) or '') == '<yash_env::option::Option as core::str::traits::FromStr>::from_str']
    cx.site('parse_long uses Option::from_str: %d' % len(fs))
    if not fs:
        cx.violation('yash_env::option::parse_long', 'parser-other-table', 'long option names are parsed by something other than Option::from_str', loc=_loc(pl))


@RS.rule('C07.R1b', 'K-GUARD', 'bracket/brace pairs: the closer is searched AFTER the first opener (a stray earlier closer must not hide a later pair)')
def r1b(cx):
    import hirq as H
    F = cx.F
    fn = 'yash_quote::str_needs_quoting'
    h = F.hir_of(fn)
    cx.fn(fn)
    loc = '%s:%s' % (h['file'], h['line'])
    WHOLE_OK = {'{', '[', ':~'}        # searches that are meant to look at the whole string
    SEARCH = ('find', 'contains', 'rfind', 'matches', 'match_indices', 'split', 'split_once', 'starts_with', 'ends_with')
    n = 0
    for x in H.walk(h['body']):
        if x.get('k') != 'mcall' or x.get('name') not in SEARCH:
            continue
        recv = H.peel(x['recv'])
        whole = recv.get('k') == 'local' and recv.get('name') == 's'
        pat = H.lit_value(x['a'][0]) if x.get('a') else None
        n += 1
        cx.site('str_needs_quoting: %s(%r) on %s' % (x['name'], pat, 'the whole string' if whole else recv.get('k')))
        if not whole:
            continue
        if x['name'] == 'rfind':
            continue          # the last closer is after the first opener iff any closer is
        if pat is None or pat not in WHOLE_OK:
            cx.violation(fn, 'closer-searched-from-start:%s' % x['name'], 'str_needs_quoting searches the whole string with %s(%s): a closing '
                         'bracket/brace has to be looked for after the opener (s[i + 1..]), otherwise an earlier stray closer hides a later '
                         'complete pair and a string such as `]a[b]` is printed unquoted and re-read as a pathname pattern'
                         % (x['name'], repr(pat) if pat is not None else 'a computed pattern'), loc=loc)
    cx.floor(n, 4, 'text searches in str_needs_quoting')



@RS.rule('C07.R4b', 'K-GUARD', 'typeset/export/readonly -p: the `--` separator is decided from the variable name itself, not from its quoted form')
def r4b(cx):
    F = cx.F
    root = 'yash_builtin::typeset::print_variables::print_one'
    b = F.body(root)
    cx.fn(root)
    du = Q.DefUse(b)
    seps = []
    for blk, j, s in b.stmts():
        if s['k'] == 'assign' and s['rv']['k'] == 'use' and 'c' in s['rv']['o'] and '"-- "' in str(s['rv']['o'].get('c')):
            seps.append((blk, j, s))
    cx.require(seps, 'the "-- " separator literal was not found in print_one')
    for blk, j, s in seps:
        ok = False
        for org, lab, e in Q.dominating_conditions(F, b, du, blk):
            if org['k'] == 'call' and Q.callee_is(org['t'], [Q.re.compile(r'<impl str>::starts_with$')]) and lab == ('bool', True):
                recv = Q.operand_name(b, du, org['t']['a'][0])
                cx.site('print_one: "-- " chosen under starts_with on `%s` at %s' % (recv, b.loc(s)))
                if recv == 'name':
                    ok = True
        if not ok:
            cx.violation(root, 'separator-from-derived-text', 'the `--` that protects a variable name starting with `-` is decided from a '
                         'string other than the name itself (e.g. its quoted form, which starts with a quote character): the printed '
                         "`typeset -x '-a b'=..` is then re-read as options", loc=b.loc(s))


@RS.rule('C07.R4c', 'K-SIBLING', 'typeset -p / typeset -fp: every character that makes the typeset parser read an operand as options is covered by the `--` separator test of both listings')
def r4c(cx):
    import hirq as H
    F = cx.F
    pfn = 'yash_builtin::typeset::syntax::try_parse_short'
    ph = F.hir_of(pfn)
    cx.fn(pfn)
    # first-character dispatch of the option parser: `match chars.next() { Some('-') => .., Some('+') => .., _ => return Ok(false) }`
    prefixes = set()
    for m in H.matches_in(ph['body']):
        if 'core::option::Option<char>' not in (m.get('sty') or ''):
            continue
        lits = set()
        for arm in m['arms']:
            for x in _walk_pat(arm['pat']):
                if x.get('k') == 'pexpr' and x['e'].get('k') == 'lit' and x['e'].get('t') == 'char':
                    lits.add(x['e']['v'])
        if lits and not prefixes:
            prefixes = lits          # the first such match in source order is the dispatch on the first character
    cx.require(prefixes, 'the first-character dispatch of typeset::syntax::try_parse_short was not found')
    for root, what, example in (('yash_builtin::typeset::print_variables::print_one', 'variable', 'typeset %sr=1'),
                                (None, 'function', '%sx() { :; }; typeset -fr -- %sx')):
        if root is None:
            cands = [k for k in F.hir if k.startswith('yash_builtin::typeset::print_functions::print_one')]
            cx.require(len(cands) == 1, 'typeset::print_functions::print_one not found (%s)' % cands)
            root = cands[0]
        h = F.hir_of(root)
        cx.fn(root)
        covered = set()
        for x in H.walk(h['body']):
            if x.get('k') == 'mcall' and x.get('name') == 'starts_with' and H.peel(x['recv']).get('name') == 'name':
                a = H.peel(x['a'][0])
                if a.get('k') == 'lit':
                    covered.add(a['v'])
                elif a.get('k') == 'array':
                    covered |= {H.lit_value(e) for e in a['a']}
        cx.site('typeset parser option prefixes %s; the %s listing protects names starting with %s' % (sorted(prefixes), what, sorted(covered)))
        missing = sorted(prefixes - covered)
        if missing:
            cx.violation(root, 'option-prefix-unprotected:%s' % ''.join(missing), 'typeset reads an operand starting with %s as options, but the '
                         '%s listing does not put `--` before a name starting with it: `%s` printed by typeset -%sp cannot be read back'
                         % (' or '.join(repr(m) for m in missing), what, example.replace('%s', missing[0]), 'f' if what == 'function' else ''),
                         loc='%s:%s' % (h['file'], h['line']))


def _walk_pat(p):
    out = [p]
    for key in ('sub', 'alts', 'before', 'after'):
        v = p.get(key)
        if isinstance(v, list):
            for q in v:
                if isinstance(q, dict):
                    out.extend(_walk_pat(q))
        elif isinstance(v, dict):
            out.extend(_walk_pat(v))
    for f in p.get('fields') or []:
        out.extend(_walk_pat(f[1]))
    return out


@RS.rule('C07.R4d', 'K-SIBLING', 'typeset -fp: a function whose name is spelled like a reserved word is printed so that it reads back as a function '
         'definition (the listing must know the reserved words; the generic quoting function does not quote them)')
def r4d(cx):
    import hirq as H
    F = cx.F
    KWFN = 'yash_syntax::parser::lex::keyword::Keyword::as_str'
    table, m = H.fn_match_table(F, KWFN, 'yash_syntax::parser::lex::keyword::Keyword')
    words = set()
    for variant, (i, arm) in table.items():
        v = H.lit_value(H.peel(arm))
        if isinstance(v, str):
            words.add(v)
    cx.require(len(words) >= 15, 'the reserved words could not be read from Keyword::as_str (%d found)' % len(words))
    cands = [k for k in F.hir if k.startswith('yash_builtin::typeset::print_functions::print_one')]
    cx.require(len(cands) == 1, 'typeset::print_functions::print_one not found')
    root = cands[0]
    h = F.hir_of(root)
    cx.fn(root)
    aware = None
    for x in H.walk(h['body']):
        d = str(x.get('def') or x.get('decl') or '')
        if 'IsKeyword' in d or '::Keyword' in d or 'is_keyword' in d or 'first_word_is_keyword' in d:
            aware = 'asks %s' % d.split('::')[-1]
        if x.get('k') == 'path' and x.get('def') in F.hir and F.hir[x['def']]['kind'].startswith('Const'):
            try:
                v = H.const_eval(F.hir[x['def']]['body'])
            except Exception:
                v = None
            if isinstance(v, list) and all(isinstance(e, str) for e in v):
                missing = sorted(words - set(v))
                if len(set(v) & words) >= 5:
                    aware = 'tests the name against %s' % x['def'].split('::')[-1]
                    if missing:
                        cx.violation(root, 'reserved-word-list-incomplete', 'the reserved-word list used by the function listing lacks %s' % missing,
                                     loc='%s:%s' % (h['file'], h['line']))
    cx.site('typeset -fp (%s): %d reserved words in the parser; the listing %s' % (root.split('::')[-1], len(words), aware or 'does not test the name against them'))
    if not aware:
        cx.violation(root, 'reserved-word-name-unquoted', 'the function listing decides how to print the name from yash_quote alone, which leaves '
                     'reserved words bare: `\\if() { echo ok; }; typeset -fp` prints `if() { echo ok; }`, which the parser reads as an `if` '
                     'command (syntax error) - the listing does not recreate the function', loc='%s:%s' % (h['file'], h['line']))


@RS.rule('C07.R4e', 'K-EFFECT', 'alias listing: name and value are quoted separately but read back as ONE word (`alias name=value` is an ordinary '
         'operand, pathname expansion applies), so an opening bracket in the name must not be left to pair with a `]` in the value')
def r4e(cx):
    import hirq as H
    F = cx.F
    root = 'yash_builtin::alias::semantics::print'
    h = F.hir_of(root)
    cx.fn(root)
    quoteds = [x for x in H.walk(h['body']) if x.get('k') == 'call' and str(x.get('def') or '').startswith('yash_quote::quote')]
    cx.require(len(quoteds) >= 1, 'alias::semantics::print no longer quotes through yash_quote')
    separately = [q for q in quoteds if any(y.get('k') == 'field' and y.get('name') in ('name', 'replacement') for y in H.walk(q['a'][0]))
                  and not any(y.get('k') in ('call', 'mcall') and 'format' in str(y.get('def') or y.get('name') or '') for y in H.walk(q['a'][0]))]
    guard = False
    for x in H.walk(h['body']):
        if x.get('k') == 'mcall' and x.get('name') in ('contains', 'find', 'starts_with', 'ends_with', 'chars', 'bytes') and \
                any(y.get('k') == 'field' and y.get('name') == 'name' for y in H.walk(x['recv'])):
            lits = {H.lit_value(y) for y in H.walk(x) if y.get('k') == 'lit'}
            if '[' in lits:
                guard = True
    # or: the joined text itself is given to the quoting function (and its verdict used)
    for q in quoteds:
        src = q['a'][0]
        names = {y.get('name') for y in H.walk(src) if y.get('k') == 'local'}
        for st in H.walk(h['body']):
            if st.get('k') == 'let' and st.get('pat', {}).get('k') == 'bind' and st['pat'].get('name') in names and st.get('init') is not None:
                flds = {y.get('name') for y in H.walk(st['init']) if y.get('k') == 'field'}
                if {'name', 'replacement'} <= flds:
                    guard = True
    cx.site('%s: %d separately quoted part(s) joined into one word; bracket test on the name / quoting verdict on the joined word: %s' % (root, len(separately), guard))
    if len(separately) >= 2 and not guard:
        cx.violation(root, 'joined-word-bracket-pair', 'name and value are each quoted on their own and written as `name=value`: with the alias '
                     '`a[` = `b]` neither part needs quoting, the listing prints `a[=b]`, and `alias a[=b]` read back in a directory that '
                     'contains a file `ab` is expanded to `alias ab` - the listing does not recreate the alias', loc='%s:%s' % (h['file'], h['line']))


# ---------------------------------------------------------------- added after wave-3 seeded changes
TOKEN = 'yash_syntax::parser::lex::core::Token'
TOKEN_ID = 'yash_syntax::parser::lex::core::TokenId'
PARSER_SC = "yash_syntax::parser::simple_command::<impl yash_syntax::parser::core::Parser<'_, '_>>::"
BUILDER_EMPTY = 'yash_syntax::parser::simple_command::Builder::is_empty'
TOKEN_PRODUCERS = [re.compile(r"^yash_syntax::parser::core::Parser::<'a, 'b>::(peek_token|take_token_raw|take_token_auto|take_token_manual)$")]


def _token_switches(F, body, du):
    """Switches on the discriminant of `<token>.id` (type TokenId, outer discriminant) where <token> is the result of one of the
    parser's token producers: [(switch block, {target: labels}, producing call)]."""
    out = []
    for u in sorted(body.live_blocks()):
        ec = Q.edge_condition(F, body, du, u)
        if not ec or ec[0]['k'] != 'discr' or (ec[0].get('ty') or '').lstrip('&') != TOKEN_ID:
            continue
        pl = du.deref_origin(ec[0]['pl'])
        proj = [e for e in (pl.get('p') or []) if e != '*']
        if len(proj) != 1 or not isinstance(proj[0], dict) or proj[0].get('f') != 'id' or proj[0].get('adt') != TOKEN:
            continue
        src = Q.value_source(body, du, {'cp': {'l': pl['l']}})
        if src is None or not Q.callee_is(src, TOKEN_PRODUCERS):
            continue
        out.append((u, ec[1], src, pl))
    # a second test of the same token that is reached only on a not-a-word edge of an earlier one (`if let Token(_) = t.id {..; continue}
    # match t.id {..}`) has no feasible word edge
    producers = {b for b, t in Q.find_calls(body, TOKEN_PRODUCERS)}
    dead_else = _dead_else_edges(F, body, du)
    keep = []
    for u, labels, src, pl in out:
        dead = False
        for u2, labels2, src2, pl2 in out:
            if u2 == u or pl2 != pl or not body.dominates(u2, u):
                continue
            word_edges = {tgt for tgt, labs in labels2.items() if ('variant', 'Token') in labs}
            if word_edges and all(u not in body.reachable(tgt, removed=producers, removed_edges=dead_else) for tgt in word_edges):
                dead = True
        if not dead:
            keep.append((u, labels, src))
    return keep


def _dead_else_edges(F, body, du):
    """`otherwise` edges of switches on an enum discriminant whose explicit targets already cover every variant (MIR building keeps
    such an edge, e.g. to the fall-through of an exhaustive or-pattern `Token(None) | Token(Some(_))`): never taken."""
    out = set()
    for u in body.live_blocks():
        t = body.term(u)
        if t['k'] != 'switch':
            continue
        ec = Q.edge_condition(F, body, du, u)
        if not ec or ec[0]['k'] != 'discr':
            continue
        names = Q.variant_names(F, ec[0].get('ty') or '')
        if names and {v for v, _ in t['ts']} >= set(range(len(names))) and t['else'] not in {tgt for _, tgt in t['ts']}:
            out.add((u, t['else']))
    return out


def _moves_token_word(body, du, operand, depth=8):
    """The operand is (a move of) the `word` field of a Token."""
    p = Q.operand_place(operand)
    for _ in range(depth):
        if p is None:
            return False
        if any(isinstance(e, dict) and e.get('f') == 'word' and e.get('adt') == TOKEN for e in p.get('p') or []):
            return True
        d = du.single_def(p['l'])
        if d is None or d[1] == 't' or d[2]['k'] != 'assign' or d[2]['rv']['k'] != 'use':
            return False
        p = Q.operand_place(d[2]['rv']['o'])
    return False


@RS.rule('C07.R6', 'K-PASS', 'words that yash_quote leaves bare because they merely LOOK like reserved words (`if`, `do`, `{`, `!`, `[[` ..) are '
         'accepted wherever a listing puts them: every word token - Token(None) and Token(Some(keyword)) alike - becomes an array element '
         'in array_values and a command word after the first in simple_command')
def r6(cx):
    import facts as _facts
    F = cx.F
    # (a) array_values: `name=(w1 w2 ..)` - printed by typeset -p / set / export -p / readonly -p for arrays
    root = PARSER_SC + 'array_values'
    body = F.inlined(F.main_body(root))
    cx.fn(root)
    du = Q.DefUse(body)
    sw = [x for x in _token_switches(F, body, du) if Q.callee_is(x[2], [re.compile(r'::take_token_(auto|raw|manual)$')])]
    cx.require(sw, 'array_values: no switch on the kind (TokenId) of a token taken with take_token_* was found')
    pushes = [(b, t) for b, t in Q.find_calls(body, ['alloc::vec::Vec::<T, A>::push']) if len(t['a']) > 1 and _moves_token_word(body, du, t['a'][1])]
    takers = {b for b, t in Q.find_calls(body, TOKEN_PRODUCERS)}
    for u, labels, src in sw:
        starts = sorted(tgt for tgt, labs in labels.items() if ('variant', 'Token') in labs)
        cx.site('array_values: token kind tested at %s; %d Token edge(s); %d site(s) pushing the token\'s word' % (body.loc(body.term(u)), len(starts), len(pushes)))
        if not starts or not pushes:
            cx.violation(root, 'array-element-never-taken', 'array_values has no arm that stores a word token as an element: `a=(x y)` cannot be parsed',
                         loc=body.loc(body.term(u)))
            continue
        for s in starts:
            p = Q.shortest_path_flags(F, body, du, s, takers | set(body.return_blocks()), removed={b for b, t in pushes}, removed_edges=_dead_else_edges(F, body, du))
            if p is not None:
                cx.violation(root, 'array-element-word-refused', 'a word token can leave array_values\' element arm without being stored as an element '
                             '(e.g. only Token(None) is accepted): the quoter prints an element such as `if`, `done`, `{` or `!` bare, the lexer '
                             'tags it Token(Some(keyword)) even here, so the listing `a=(x if y)` printed by typeset -p / set is a syntax error '
                             'when read back - the array is not recreated', loc=body.loc(body.term(u)),
                             path=Q.render_path(body, p))
                break
    # (b) simple_command: `typeset do`, `readonly -- if` .. - a reserved word is special only where NOTHING of the command has been read yet
    root = PARSER_SC + 'simple_command'
    mb = F.main_body(root)
    base = _facts.same_module_private(F, mb.root)
    body = F.inlined(mb, lambda callee: callee != BUILDER_EMPTY and base(callee))
    cx.fn(root)
    du = Q.DefUse(body)
    sw = [x for x in _token_switches(F, body, du) if Q.callee_is(x[2], [re.compile(r'::peek_token$')])]
    cx.require(sw, 'simple_command: no switch on the kind (TokenId) of the peeked token was found')
    takes = {b for b, t in Q.find_calls(body, [re.compile(r'::take_token_(auto|raw|manual)$')])}
    cx.require(takes, 'simple_command no longer consumes tokens with take_token_*')
    empty_true = set()
    for b, t in Q.find_calls(body, [BUILDER_EMPTY]):
        for v in sorted(body.live_blocks()):
            ec = Q.edge_condition(F, body, du, v)
            if ec and ec[0]['k'] == 'call' and ec[0]['t'] is t:
                for tgt, labs in ec[1].items():
                    if ('bool', True) in labs:
                        empty_true.add((v, tgt))
    for u, labels, src in sw:
        starts = sorted(tgt for tgt, labs in labels.items() if ('variant', 'Token') in labs)
        cx.site('simple_command: peeked token kind tested at %s; %d Token edge(s); %d `result.is_empty()` true edge(s) exempted' %
                (body.loc(body.term(u)), len(starts), len(empty_true)))
        if not starts:
            cx.violation(root, 'command-word-never-taken', 'simple_command has no arm for word tokens', loc=body.loc(body.term(u)))
        for s in starts:
            p = Q.shortest_path_flags(F, body, du, s, set(body.return_blocks()), removed=takes, removed_edges=empty_true | _dead_else_edges(F, body, du))
            if p is not None:
                cx.violation(root, 'command-word-refused', 'a word token can end the simple command without being consumed although something of the '
                             'command has already been read (not on the `result.is_empty()` edge): an argument spelled like a reserved word, as in '
                             'the listing line `typeset do` / `readonly -- if` of a variable so named, is cut off the command when read back',
                             loc=body.loc(body.term(u)), path=Q.render_path(body, p))
                break


# --- explanation addendum (generated catalogue in DESIGN.md reads RS.explanation)
RS.explanation += ' Added later: the `--` separator test of both typeset listings covers every option prefix of the typeset parser (R4c); the function listing must know the reserved words (R4d, open finding); the alias listing must quote the joined word (R4e).'
RS.explanation += ' Words spelled like reserved words, which the quoter leaves bare, are accepted by the parser where listings put them: in array_values every Token(_) edge stores the word as an element, and in simple_command a Token ends the command unconsumed only on the result.is_empty() edge (R6).'


# ---------------------------------------------------------------------------------------
# added after seed wave 4 (C07-s7 = C06-s5 seen from the listing side): `typeset -fp` prints function bodies with the Display
# implementation of the syntax tree, so the printer clauses of C06 are clauses of "the listing can be read back" as well
from rules.C06 import r5 as _c06_keyword_first_word, r3b as _c06_redir_before_keyword
from engine import Rule
RS.rules.append(Rule('C07.R7', 'K-TABLE', 'a function listing (`typeset -fp`) is printed by Display of the syntax tree: a simple command whose first word is '
                     'spelled like ANY reserved word - the clause delimiters then/do/done/fi/elif/else/esac/} included - is printed with its '
                     'redirections first, otherwise `f() { </dev/null fi x; }` is listed as `fi x </dev/null` and cannot be read back (C06.R5)',
                     _c06_keyword_first_word))
RS.rules.append(Rule('C07.R7b', 'K-GUARD', 'function listing: redirections are moved in front of a keyword-spelled command name whatever its length (C06.R3b)',
                     _c06_redir_before_keyword))
RS.explanation += ' Function listings are printed by Display: the keyword clauses of the printer are shared with C06 (R7 = C06.R5, R7b = C06.R3b).'


# ---------------------------------------------------------------------------------------
# added after seed wave 4 (C07-s8: a single-byte fast path that used is_ascii_whitespace for all of Latin-1)
@RS.rule('C07.R8', 'K-PASS+K-SIBLING', 'a character is declared safe to print unquoted only after the very predicate the lexer uses for blanks has said no: '
         'the lexer delimits tokens with char::is_whitespace (is_blank), so in char_needs_quoting every path to a return either answers the '
         'constant `true` or answers with char::is_whitespace of the character - no other test (a byte-range fast path, is_ascii_whitespace, a '
         'table) can end with "needs no quoting" (NBSP, NEL and VT are blanks for the lexer: `typeset v=ls<NBSP>-l` printed bare reads back as two words)')
def r8(cx):
    F = cx.F
    fn = QUOTE + 'char_needs_quoting'
    body = F.inlined(F.body(fn))
    cx.fn(fn)
    qt, bt = _eval_char_pred(F, fn), _eval_char_pred(F, IS_BLANK)
    if qt is not None and bt is not None:
        # both predicates evaluated on the same %d characters: the agreement itself, whatever the shape of the code
        bad = sorted(c for c in EVAL_DOMAIN if (bt[c] or c == 0xA) and not qt[c])
        cx.site('char_needs_quoting and lex::is_blank evaluated on %d characters (all below U+0250, every White_Space character): '
                'token-delimiting blanks declared safe: %s' % (len(EVAL_DOMAIN), [hex(c) for c in bad] or 'none'))
        cx.cellcount(len(EVAL_DOMAIN))
        for c in bad:
            cx.violation(fn, 'safe-without-lexer-blank-test', 'U+%04X delimits tokens for the lexer (is_blank) but char_needs_quoting answers '
                         '"needs no quoting": a value containing it (`typeset v=ls<U+%04X>-l`) is printed bare and reads back as two words' % (c, c),
                         loc='%s:%s' % (body.file, body.line))
        return
    # the sibling: is_blank really is char::is_whitespace (minus the newline)
    ib = F.body(LEX + 'core::is_blank') if (LEX + 'core::is_blank') in F.bodies else None
    cx.require(ib is not None, 'the lexer predicate lex::core::is_blank was not found')
    cx.require(Q.find_calls(ib, [re.compile(r'char::methods::<impl char>::is_whitespace$')]),
               'is_blank no longer consults char::is_whitespace: review which predicate delimits tokens and make char_needs_quoting agree')
    ws = [(b, t) for b, t in Q.find_calls(body, [re.compile(r'char::methods::<impl char>::is_whitespace$')])
          if (Q.operand_place(t['a'][0]) or {}).get('l') in Q.forward_taint(body, {1}) or (Q.operand_place(t['a'][0]) or {}).get('l') == 1]
    through = {b for b, t in ws if t['dest']['l'] == 0 or True}
    for b, j, st in body.stmts():
        if st['k'] == 'assign' and st['lhs']['l'] == 0 and not st['lhs'].get('p') and st['rv']['k'] == 'use' and str(st['rv']['o'].get('c')) == 'true':
            through.add(b)
    cx.site('char_needs_quoting: char::is_whitespace(c) consulted at %s; %d block(s) answer the constant true' % (
        [body.loc(t) for b, t in ws], len(through) - len({b for b, t in ws})))
    if not ws:
        cx.violation(fn, 'lexer-blank-predicate-not-consulted', 'char_needs_quoting never asks char::is_whitespace, the predicate the lexer uses to '
                     'delimit tokens: a value containing a non-ASCII blank is printed bare and reads back as several words', loc=body.loc(body.d))
        return
    path = Q.must_pass(body, [0], through)
    if path is not None:
        cx.violation(fn, 'safe-without-lexer-blank-test', 'char_needs_quoting can answer without having asked char::is_whitespace (and without '
                     'answering `true`): some characters are declared safe by another test, e.g. a single-byte fast path using '
                     'is_ascii_whitespace, which lets U+000B, U+0085 and U+00A0 through although the lexer splits words at them',
                     loc=body.loc(body.term(path[-1])), path=Q.render_path(body, path))
    # the answer of the predicate is the answer of the function on that path (not negated, not and-ed away)
    for b, t in ws:
        if t['dest']['l'] != 0:
            tl = Q.forward_taint(body, {t['dest']['l']})
            cx.require(0 in tl, 'the result of char::is_whitespace does not flow into the answer of char_needs_quoting (shape not understood)')


RS.explanation += ' char_needs_quoting declares a character safe only after char::is_whitespace - the lexer\'s blank predicate - said no (R8).'


# ---------------------------------------------------------------------------------------
# added after seed wave 5 (C07-s9: `new_mask` skipped every action whose literal permission list is empty, the `=` operator included)
from rules.C01 import (Interp as _HInterp, MutStruct as _MutStruct, Undecidable as _HUndecidable, V as _HV,
                       _Break as _HBreak, _Continue as _HContinue)

UMASK = 'yash_builtin::umask::'
UM_COMMAND, UM_CLAUSE, UM_ACTION, UM_WHO = UMASK + 'Command', UMASK + 'symbol::Clause', UMASK + 'symbol::Action', UMASK + 'symbol::Who'
UM_PERM, UM_OP = UMASK + 'symbol::Permission', UMASK + 'symbol::Operator'
UM_NEW_MASK = UMASK + 'eval::new_mask'
_INT_BITS = {'u8': 8, 'u16': 16, 'u32': 32, 'u64': 64, 'usize': 64}


class _BitInterp(_HInterp):
    """rules/C01.Interp plus what integer mask arithmetic needs: & | ^ << >> ! on unsigned integers (wrapped to the operand type),
    `for` over a Vec value / `.iter()` of one, |= &= ^=, and calls of other functions of the umask module (interpreted as well)."""

    def __init__(self, F, scope, fuel=20000):
        _HInterp.__init__(self, F, self._extern, fuel)
        self.scope = scope

    def _extern(self, name, recv, args, node):
        name = str(name)
        if name.startswith(self.scope) and name in self.F.hir and not name.startswith('path:'):
            sub = _BitInterp(self.F, self.scope, self.fuel)
            r = sub.call_fn(name, ([recv] if recv is not None else []) + list(args))
            self.fuel = sub.fuel
            return r
        if isinstance(recv, list) and not args and re.search(r'::(iter|into_iter|as_slice|deref|by_ref|copied|cloned)$', name):
            return recv
        if isinstance(recv, (int, bool, tuple)) and not args and re.search(r'::clone$', name):
            return recv
        raise _HUndecidable('new_mask calls %s, which the rule does not model' % name)

    @staticmethod
    def _bits(n):
        b = _INT_BITS.get(str(n.get('ta') or n.get('ty') or ''))
        if b is None:
            raise _HUndecidable('bit operation on type %r' % (n.get('ta') or n.get('ty')))
        return b

    @staticmethod
    def _bitop(op, a, b, bits):
        m = (1 << bits) - 1
        if op == '&':
            return a & b
        if op == '|':
            return a | b
        if op == '^':
            return a ^ b
        if op == '<<' and 0 <= b < bits:
            return (a << b) & m
        if op == '>>' and 0 <= b < bits:
            return a >> b
        raise _HUndecidable('operator %s' % op)

    def binary(self, n, env):
        if n['op'] in ('&', '|', '^', '<<', '>>'):
            a, b = self.ev(n['a'], env), self.ev(n['b'], env)
            if isinstance(a, bool) and isinstance(b, bool) and n['op'] in ('&', '|', '^'):
                return {'&': a and b, '|': a or b, '^': a != b}[n['op']]
            if isinstance(a, int) and isinstance(b, int) and not isinstance(a, bool) and not isinstance(b, bool):
                return self._bitop(n['op'], a, b, self._bits(n))
            raise _HUndecidable('binary %s on %r, %r' % (n['op'], a, b))
        return _HInterp.binary(self, n, env)

    def ev(self, n, env):
        k = n.get('k') if n is not None else None
        if k == 'unary' and n.get('op') == '!':
            a = self.ev(n['a'], env)
            if isinstance(a, bool):
                return not a
            if isinstance(a, int):
                return ~a & ((1 << self._bits(n)) - 1)
            raise _HUndecidable('! on %r' % (a,))
        if k == 'assignop' and n.get('op') in ('&=', '|=', '^=', '<<=', '>>='):
            cur, r = self.ev(n['l'], env), self.ev(n['r'], env)
            if isinstance(cur, bool) or isinstance(r, bool) or not (isinstance(cur, int) and isinstance(r, int)):
                raise _HUndecidable('compound assignment %s on %r, %r' % (n['op'], cur, r))
            self.assign(n['l'], self._bitop(n['op'][:-1], cur, r, 16), env)
            return ('T', ())
        if k == 'for':
            itv = self.ev(n['iter'], env)
            if not isinstance(itv, list):
                raise _HUndecidable('for loop over %r' % (itv,))
            for item in list(itv):
                self.fuel -= 1
                if self.fuel < 0:
                    raise _HUndecidable('fuel')
                if not self.bind(n['pat'], item, env):
                    raise _HUndecidable('for loop pattern')
                try:
                    self.ev(n['body'], env)
                except _HBreak:
                    break
                except _HContinue:
                    continue
            return ('T', ())
        return _HInterp.ev(self, n, env)


def _um_fields(F, adt, variant=None):
    a = F.adts.get(adt)
    if a is None:
        return None
    for v in a['variants']:
        if variant is None or v['name'] == variant:
            return [f['name'] for f in v['fields']]
    return None


def _um_action(op, perm):
    if isinstance(perm, str):
        p = _HV(UM_PERM + '::' + perm)
    else:
        p = _MutStruct(UM_PERM + '::Literal', {'mask': perm[0], 'conditional_executable': perm[1]}, variant=True)
    return _MutStruct(UM_ACTION, {'operator': _HV(UM_OP + '::' + op), 'permission': p})


def _um_clause(who, actions):
    return _MutStruct(UM_CLAUSE, {'who': _MutStruct(UM_WHO, {'mask': who}), 'actions': list(actions)})


def _um_reference(current, clauses):
    """POSIX symbolic mode applied to the complement of the mask (`current` = permissions NOT masked), written independently of /repo:
    permission copies and X are resolved against the mask the built-in started with."""
    def rep(c):
        c &= 7
        return (c << 6) | (c << 3) | c
    result = current
    for who, actions in clauses:
        for op, perm in actions:
            if perm == 'CopyUser':
                bits = rep(current >> 6)
            elif perm == 'CopyGroup':
                bits = rep(current >> 3)
            elif perm == 'CopyOther':
                bits = rep(current)
            else:
                bits = perm[0] | (0o111 if perm[1] and current & 0o111 else 0)
            bits &= who
            if op == 'Add':
                result |= bits
            elif op == 'Remove':
                result &= ~bits & 0xFFFF
            else:                                   # Set: the `who` bits become exactly `bits` - an empty list clears the class
                result = (result & ~who & 0xFFFF) | bits
    return result


def _um_show(who, op, perm):
    w = {0o700: 'u', 0o070: 'g', 0o007: 'o', 0o777: 'a', 0o770: 'ug'}.get(who, oct(who))
    o = {'Add': '+', 'Remove': '-', 'Set': '='}[op]
    if isinstance(perm, str):
        p = {'CopyUser': 'u', 'CopyGroup': 'g', 'CopyOther': 'o'}[perm]
    else:
        p = ''.join(ch for ch, bit in (('r', 0o444), ('w', 0o222), ('x', 0o111)) if perm[0] & bit) + ('X' if perm[1] else '')
    return w + o + p


@RS.rule('C07.R9', 'K-TABLE', 'the listing printed by `umask -S` (`u=rwx,g=rx,o=`) recreates the mask: umask::eval::new_mask, evaluated on its HIR, '
         'agrees with the POSIX symbolic-mode semantics for every single action who {u,g,o,a,ug} x operator {+,-,=} x permission {every subset of rwx, '
         'with and without X, u, g, o} and for the listing of each of the 512 masks - in particular `who=` with an empty permission list '
         'clears the class, whatever the permission VALUE is no action is skipped')
def r9(cx):
    F = cx.F
    cx.fn(UM_NEW_MASK)
    h = F.hir_of(UM_NEW_MASK)
    # the value model the rule builds its inputs from: fail closed when the types change
    cx.require(_um_fields(F, UM_COMMAND, 'Set') == ['0'] and 'Vec<%s>' % UM_CLAUSE in str(F.adts[UM_COMMAND]['variants']),
               'umask::Command::Set is no longer Set(Vec<Clause>)')
    cx.require(_um_fields(F, UM_CLAUSE) == ['who', 'actions'], 'umask::symbol::Clause is no longer {who, actions}')
    cx.require(_um_fields(F, UM_WHO) == ['mask'], 'umask::symbol::Who is no longer {mask}')
    cx.require(_um_fields(F, UM_ACTION) == ['operator', 'permission'], 'umask::symbol::Action is no longer {operator, permission}')
    cx.require([v['name'] for v in F.adts[UM_OP]['variants']] == ['Add', 'Remove', 'Set'], 'umask::symbol::Operator is no longer Add/Remove/Set')
    cx.require([v['name'] for v in F.adts[UM_PERM]['variants']] == ['CopyUser', 'CopyGroup', 'CopyOther', 'Literal'] and
               _um_fields(F, UM_PERM, 'Literal') == ['mask', 'conditional_executable'],
               'umask::symbol::Permission is no longer CopyUser/CopyGroup/CopyOther/Literal{mask, conditional_executable}')
    cx.require(len(h['params']) == 2 and F.fns[UM_NEW_MASK]['inputs'] == ['u16', '&' + UM_COMMAND] and F.fns[UM_NEW_MASK]['output'] == 'u16',
               'new_mask is no longer fn(u16, &Command) -> u16')

    def run(current, clauses):
        cmd = _HV(UM_COMMAND + '::Set', [_um_clause(who, [_um_action(op, perm) for op, perm in actions]) for who, actions in clauses])
        try:
            r = _BitInterp(F, UMASK).call_fn(UM_NEW_MASK, [current, cmd])
        except _HUndecidable as e:
            cx.require(False, 'new_mask cannot be evaluated on its HIR (%s): the `umask -S` read-back clause is undecided' % e)
        cx.require(isinstance(r, int) and not isinstance(r, bool), 'new_mask evaluated to a non-integer %r' % (r,))
        return r

    loc = '%s:%s' % (h['file'], h['line'])
    # (a) every single action
    perms = [(m, x) for m in (0, 0o111, 0o222, 0o333, 0o444, 0o555, 0o666, 0o777) for x in (False, True)] + ['CopyUser', 'CopyGroup', 'CopyOther']
    currents = (0o000, 0o777, 0o755, 0o750, 0o640, 0o201)
    cells, bad = 0, {}
    for who in (0o700, 0o070, 0o007, 0o777, 0o770):
        for op in ('Add', 'Remove', 'Set'):
            for perm in perms:
                for cur in currents:
                    cells += 1
                    got, want = run(cur, [(who, [(op, perm)])]), _um_reference(cur, [(who, [(op, perm)])])
                    if got != want:
                        bad.setdefault((op, 'copy' if isinstance(perm, str) else ('empty-list' if perm == (0, False) else 'literal')), []).append(
                            (who, op, perm, cur, got, want))
    cx.site('new_mask evaluated on %d single actions (5 who x 3 operators x %d permissions x %d current masks): %d disagree with the reference' % (
        cells, len(perms), len(currents), sum(len(v) for v in bad.values())))
    for (op, cls), exs in sorted(bad.items()):
        who, op_, perm, cur, got, want = exs[0]
        cx.violation(UM_NEW_MASK, 'action-%s-%s' % (op.lower(), cls),
                     '`umask %s` with the mask %03o gives %03o instead of %03o (%d input(s) of this kind disagree): the symbolic action is not '
                     'applied as POSIX defines it, so a listing printed by `umask -S` does not recreate the mask' % (
                         _um_show(who, op_, perm), ~cur & 0o777, ~got & 0o777, ~want & 0o777, len(exs)), loc=loc)
    # (b) the listing of every mask, read back from three starting masks
    lcells, lbad = 0, []
    for allowed in range(0o1000):
        clauses = [(w, [('Set', (((0o444 if allowed & w & 0o444 else 0) | (0o222 if allowed & w & 0o222 else 0) | (0o111 if allowed & w & 0o111 else 0)), False))])
                   for w in (0o700, 0o070, 0o007)]
        for cur in (0o777, 0o000, 0o755):
            lcells += 1
            got = run(cur, clauses)
            if got != allowed:
                lbad.append((allowed, cur, got))
    cx.site('the `umask -S` listing u=..,g=..,o=.. of each of the 512 masks evaluated from 3 starting masks (%d runs): %d do not recreate the mask' % (lcells, len(lbad)))
    cx.cellcount(cells + lcells)
    if lbad:
        allowed, cur, got = lbad[0]
        text = ','.join(_um_show(w, 'Set', ((0o444 if allowed & w & 0o444 else 0) | (0o222 if allowed & w & 0o222 else 0) | (0o111 if allowed & w & 0o111 else 0), False))
                        for w in (0o700, 0o070, 0o007))
        cx.violation(UM_NEW_MASK, 'listing-not-recreated', 'the listing `%s` that `umask -S` prints for the mask %03o, evaluated in a shell whose mask is '
                     '%03o, sets the mask %03o (%d of %d listing runs fail): the printed state is not recreated' % (
                         text, ~allowed & 0o777, ~cur & 0o777, ~got & 0o777, len(lbad), lcells), loc=loc)


RS.explanation += ' umask::eval::new_mask is evaluated on its HIR over every single symbolic action and the `umask -S` listing of all 512 masks against a reference written in the rule: `who=` with an empty list clears the class (R9).'


# ---------------------------------------------------------------------------------------
# added after seed wave 5 (C07-s10: Memory::next_line dropped the CR of a CR LF pair, also inside quotes)
INPUT_TRAIT = 'yash_env::input::Input'
# str / String methods whose result (or effect on the receiver) is the text with characters removed or replaced.  split_inclusive, chars,
# find, len, is_empty, to_owned, as_bytes, from_utf8 .. keep every character and are not listed.
TEXT_EDIT = re.compile(
    r'^(?:core::str::<impl str>|alloc::str::<impl str>|alloc::string::String)::'
    r'(trim\w*|strip_\w+|r?split(?:n|_terminator|_whitespace|_ascii_whitespace|_once|_off|_at\w*|_first|_last)?|lines|replace\w*|'
    r'to_(?:ascii_)?(?:lower|upper)case|make_ascii_\w+|escape_\w+|pop|truncate|remove|retain|drain|clear|insert\w*|'
    r'from_utf8_lossy\w*|from_utf16_lossy|repeat|get(?:_mut|_unchecked\w*)?|r?matches|r?match_indices|extend_from_within)$')
TEXT_ITER_ADAPTER = re.compile(r'^core::iter::traits::(?:iterator::Iterator|double_ended::DoubleEndedIterator)::'
                               r'(filter|filter_map|map|map_while|skip|skip_while|take|take_while|step_by|rev|flat_map|scan|nth|nth_back|next_back|advance_by|last|reduce|fold)$')
TEXT_ITER_TYPE = re.compile(r'core::str::iter::(Chars|CharIndices|Bytes|Split\w*|RSplit\w*|Lines\w*|Matches|EncodeUtf16)|core::str::(Chars|CharIndices|Bytes|Lines)\b')
TEXT_INDEX = re.compile(r'ops::index::Index(Mut)?(<.*>)?(>| for .*>)?::index(_mut)?$')
# reviewed editing sites inside the input functions: (substring of the logical function, method) -> why it is not a loss of source text
INPUT_EDIT_REVIEWED = {
    ('fd_reader_2::FdReader2<S> as yash_env::input::Input>::next_line', 'from_utf8_lossy'):
        'only bytes that are not valid UTF-8 are replaced (String::from_utf8 is tried first); text the quoter printed is valid UTF-8',
}


def _text_edit_name(t):
    """Name of the text-editing operation a call terminator performs, or None."""
    f = t['f']
    d = str(f.get('def') or f.get('decl') or '')
    m = TEXT_EDIT.match(d)
    if m:
        return m.group(1)
    at0 = str((t.get('at') or [''])[0])
    for cand in (d, str(f.get('decl') or '')):
        m = TEXT_ITER_ADAPTER.match(cand)
        if m and TEXT_ITER_TYPE.search(at0):
            return 'chars-' + m.group(1)
        if TEXT_INDEX.search(cand) and re.match(r'^&(mut )?(str|alloc::string::String)$', at0):
            return 'slice-index'
    return None


@RS.rule('C07.R10', 'K-EFFECT', 'what an input function hands to the lexer is the source text verbatim: in every implementation of '
         'yash_env::input::Input::next_line (Memory, FdReader2, the decorators Echo / IgnoreEof / Reporter / EofGuard, yash_prompt::Prompter), the other '
         'functions of their source files (constructors such as Memory::new, which splits the code into lines) and the workspace helpers they call that '
         'return text, no str / String method that removes or replaces characters (trim*, strip_*, split without _inclusive, lines, replace*, pop, '
         'truncate, remove, retain, slicing, filtering chars ..) is called, reviewed sites excepted - a quoted value is printed with its characters '
         'verbatim inside quotes, so any character the input function drops (the CR of CR LF) is lost from the value read back')
def r10(cx):
    F = cx.F
    impls = [i for i in F.impls if i.get('trait_def') == INPUT_TRAIT]
    cx.require(impls, 'no implementation of yash_env::input::Input was found')
    roots = []
    for i in impls:
        nl = [it['def'] for it in i['items'] if it.get('kind') == 'Fn' and it.get('name') == 'next_line']
        cx.require(len(nl) == 1 and nl[0] in F.by_root, 'an implementation of Input (%s) has no next_line body' % i.get('self'))
        roots.append(nl[0])
    for adt in ('yash_env::input::memory::Memory', 'yash_env::input::fd_reader_2::FdReader2'):
        cx.require(any(i.get('self_adt') == adt for i in impls), 'the primary input function %s no longer implements Input' % adt)
    cx.floor(len(roots), 8, 'implementations of Input::next_line (blanket impl, Memory, FdReader2, Echo, IgnoreEof, Reporter, EofGuard, Prompter)')
    # whole files for the implementations in the crate that defines the trait (yash-env/src/input.rs, input/*.rs: constructors, private
    # helpers); for implementations in other crates (Prompter: its file also builds the PROMPT text, which is not source code) the next_line function only, no helper closure
    cx.require(INPUT_TRAIT in F.traits, 'the trait yash_env::input::Input was not found')
    home = INPUT_TRAIT.split('::')[0]
    files = {i['file'] for i in impls if i.get('crate') == home and i.get('file')}
    cx.require(len(files) >= 3, 'fewer than 3 source files of the crate defining Input implement it')
    scope, outside = {}, {}                              # body path -> body
    for k, b in F.bodies.items():
        if b.file in files:
            scope[k] = b
    for r in roots:
        for b in F.logical(r):
            if b.fn not in scope:
                outside[b.fn] = b
    # workspace helpers called from there that return text (a line normaliser moved to another module stays in scope)
    work, seen_roots = list(scope.values()), set(b.root for b in scope.values())
    helpers = []
    while work:
        b = work.pop()
        for blk, t in b.calls():
            d = t['f'].get('def')
            if not d or d not in F.by_root or d in seen_roots or not re.match(r'^<?yash_', d):
                continue
            out = str((F.fns.get(d) or {}).get('output') or '')
            if not re.search(r'\bstr\b|\bString\b|\bCow<', out) or re.search(r'yash_env::input::Input>::next_line$', d):
                continue
            seen_roots.add(d)
            helpers.append(d)
            for hb in F.logical(d):
                scope[hb.fn] = hb
                work.append(hb)
    scope.update(outside)
    seen_roots |= {b.root for b in outside.values()}
    for r in sorted(seen_roots):
        cx.fn(r)
    # the matcher matches something: text-editing calls exist elsewhere in yash-env (outside the input functions)
    elsewhere = 0
    for k, b in F.bodies.items():
        if k not in scope and (b.file or '').startswith('yash-env/src/'):
            elsewhere += sum(1 for blk, t in b.calls() if _text_edit_name(t))
    cx.require(elsewhere >= 3, 'the text-editing matcher finds fewer than 3 calls in the rest of yash-env (strip_prefix in option::parse_long, '
               'split in variable::value::Value::split ..): callee paths have changed, the inventory would be vacuous')
    found, used_reviews = 0, set()
    ncalls = 0
    for k in sorted(scope):
        b = scope[k]
        for blk, t in b.calls():
            ncalls += 1
            name = _text_edit_name(t)
            if name is None:
                continue
            found += 1
            why = None
            for (fn_sub, meth), reason in INPUT_EDIT_REVIEWED.items():
                if fn_sub in b.root and name == meth:
                    why, _ = reason, used_reviews.add((fn_sub, meth))
            cx.site('%s calls %s at %s: %s' % (b.root, t['f'].get('def') or t['f'].get('decl'), b.loc(t), 'reviewed - ' + why if why else 'NOT reviewed'))
            if why is None:
                cx.violation(b.root, 'text-edit-%s' % name, 'an input function (or a function of its file / a text helper it calls) applies `%s` to text: '
                             'characters of the source code can be removed or replaced before the lexer sees them, also inside quotes - e.g. a CR '
                             'before the newline dropped by strip_suffix("\\r\\n") turns the printed `v=\'dos\\r\\nline\'` into `dos\\nline` when '
                             'read back; if this call provably never touches the returned text, add it to INPUT_EDIT_REVIEWED with the reason' % name,
                             loc=b.loc(t))
    # the reviewed lossy decoding is a fallback only: strict decoding is attempted in the same function
    for (fn_sub, meth) in sorted(used_reviews):
        if meth == 'from_utf8_lossy':
            strict = [1 for k, b in scope.items() if fn_sub in b.root for blk, t in Q.find_calls(b, ['alloc::string::String::from_utf8', 'core::str::converts::from_utf8'])]
            if not strict:
                cx.violation('FdReader2::next_line', 'lossy-decoding-not-fallback', 'FdReader2::next_line decodes with from_utf8_lossy without trying the strict '
                             'String::from_utf8 first: the review of this site assumed valid text is returned unchanged')
    cx.site('%d bodies in scope (%d Input::next_line implementations, their %d source files, %d text-returning workspace helper(s) %s), %d calls examined, '
            '%d text-editing call(s), %d elsewhere in yash-env (matcher is live)' % (len(scope), len(roots), len(files), len(helpers), helpers, ncalls, found, elsewhere))


RS.explanation += ' Input functions hand the source text to the lexer verbatim: no text-editing str/String call in any Input::next_line implementation, its file or its text helpers, except the reviewed lossy-UTF-8 fallback of FdReader2 (R10).'
