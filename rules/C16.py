"""C16 - variable scope, lifetime and attributes behave as documented in every history.

Structural clauses decided (DESIGN.md 4/C16): contexts are pushed/popped only through
the RAII guards (so every exit path pops), nothing forgets a guard, the variable store
is replaced wholesale only by fork save/restore and constructors, and the private
stacks are changed only by the reviewed functions; a variable's value is written
through a reference only by VariableRefMut::assign_impl on the not-read-only edge,
read_only_location is only ever set (get_or_insert), unset drains only after scanning
exactly the drained range for read-only variables, VariableRefMut gives no &mut
Variable; each command kind chooses context/scope/export as documented; execve gets
its environment from env_c_strings, which emits only exported variables."""
import re
from engine import RuleSet
import mirq as Q
import pp

RS = RuleSet(
    'C16',
    explanation=(
        'Caller, writer, guard and ordering rules over the MIR of yash-env::variable and the simple-command code of '
        'yash-semantics: push_context_impl / pop_context_impl are called only by the two push_context constructors '
        '(which return the guard on every path) and the two Drop impls; no ContextGuard / EnvContextGuard reaches '
        'mem::forget, ManuallyDrop or Box::leak and guards are constructed only by push_context; Env::variables / a '
        'whole VariableSet is replaced only by ForkEnvState save/restore and Env constructors; every mutable use of '
        'VariableSet::{all_variables, contexts} is a reviewed (function, operation) pair. Through a reference, '
        'Variable::value and last_assigned_location are written only in VariableRefMut::assign_impl on the edge '
        'where read_only_location.clone() is None, read_only_location only by Option::get_or_insert in '
        'make_read_only (never cleared), is_exported / quirk only by their setters; a whole Variable is overwritten '
        'through a reference only in get_or_new_impl (volatile -> regular migration); VariableSet::unset drains '
        'stack[index..] only on the None edge of a search for is_read_only() over the same stack[index..]; '
        'VariableRefMut has Deref only and no public signature returns &mut Variable. execute_function and '
        'execute_external_utility push a Volatile context before perform_assignments(.., export = true, ..) and keep '
        'the guard until the command ran; execute_absent_target assigns with export = false and pushes nothing; '
        'execute_builtin pushes Volatile / exports exactly on the `type == Special` false edge; the wrapper maps '
        'export to Scope::Volatile and !export to Scope::Global and forwards both; execute_function_body runs the '
        'body inside a Regular context holding PositionalParams::from_fields(fields). Exec::execve is called only by '
        'replace_current_process / fall_back_on_sh (and delegating impls) with the environment computed by '
        'env_c_strings, whose closure builds a string only for the top variable of a name with is_exported set.'),
    not_decided='lookup results over all histories (equivalence with a stack of maps), e.g. the volatile-to-regular '
                'migration and hidden variables; that export and readonly choose the documented scope (typeset and unset are '
                'decided: R18, R19); quirks; VariableRefMut has no DerefMut as a compile-fail witness (elsewhere)',
    trusted=['std Vec/HashMap/Option method semantics (push/pop/drain/retain/get_or_insert/replace)'],
    assumptions=['unsafe code is not modelled (none in yash-env::variable)', 'unwinding paths are not considered',
                 'a place is "through a reference" when it contains a dereference before the field projection'],
)

V = 'yash_env::variable::'
VAR = V + 'main::Variable'
VREF = V + 'main::VariableRefMut'
VSET = V + 'VariableSet'
VIC = V + 'VariableInContext'
CG = V + 'guard::ContextGuard'
ECG = V + 'guard::EnvContextGuard'
PUSH_IMPL = VSET + '::push_context_impl'
POP_IMPL = VSET + '::pop_context_impl'
VS_PUSH = V + 'guard::<impl yash_env::variable::VariableSet>::push_context'
ENV_PUSH = V + 'guard::<impl yash_env::Env<S>>::push_context'
SC = 'yash_semantics::command::simple_command::'
WRAP = SC + 'perform_assignments'


def _projects(place, adt, field):
    return any(isinstance(e, dict) and e.get('f') == field and e.get('adt') == adt for e in place.get('p') or [])


def _through_ref(place, adt, field):
    seen = False
    for e in place.get('p') or []:
        if e == '*':
            seen = True
        elif isinstance(e, dict) and e.get('adt') == adt and (field is None or e.get('f') == field):
            return seen
    return False


def _trace_place(du, operand, depth=16):
    """Follow an operand through single-definition copies / moves / (re)borrows to the
    place it denotes; a reference temporary is identified with its referent."""
    p = Q.operand_place(operand)
    for _ in range(depth):
        if p is None:
            return None
        proj = p.get('p') or []
        d = du.single_def(p['l'])
        if d is None or d[1] == 't' or d[2]['k'] != 'assign':
            return p
        rv = d[2]['rv']
        if rv['k'] == 'use' and Q.operand_place(rv['o']) is not None:
            q = Q.operand_place(rv['o'])
            p = {'l': q['l'], 'p': (q.get('p') or []) + proj}
        elif rv['k'] == 'ref':
            q = rv['pl']
            if proj and proj[0] == '*':
                p = {'l': q['l'], 'p': (q.get('p') or []) + proj[1:]}
            elif not proj:
                p = {'l': q['l'], 'p': list(q.get('p') or [])}
            else:
                return p
        else:
            return p
    return p


def _strip_ref(ty):
    return re.sub(r"^&('\w+ )?(mut )?", '', ty or '')


def _lhs_type(F, body, place):
    """Type of the value stored by an assignment to `place`, when the place ends in a
    field projection (ADT field type) or in a dereference of a local / field."""
    p = place.get('p') or []
    if not p:
        return body.locals[place['l']].get('ty', '')

    def field_ty(e, before):
        if e.get('ty'):
            return e['ty']
        a = F.adts.get(e.get('adt'))
        if not a:
            return ''
        vname = next((x['v'] for x in before[::-1] if isinstance(x, dict) and 'v' in x), None)
        for v in a['variants']:
            if vname is None or v['name'] == vname:
                for f in v['fields']:
                    if f['name'] == e['f']:
                        return f['ty']
        return ''
    last = p[-1]
    if isinstance(last, dict) and 'f' in last:
        return field_ty(last, p[:-1])
    if last == '*':
        if len(p) == 1:
            return _strip_ref(body.locals[place['l']].get('ty', ''))
        prev = p[-2]
        if isinstance(prev, dict) and 'f' in prev:
            return _strip_ref(field_ty(prev, p[:-2]))
    return ''


def _mut_uses(body, adt, field, through_ref_only=False):
    """Mutable uses of a field: [(kind, descriptor, node, block)]: 'assign' | 'call'
    (a `&mut` borrow of the field reaches this call; descriptor = callee) | 'escape'."""
    out = []
    for b, j, s, kind, f in Q.field_writes(body, adt, field):
        pl = s['lhs'] if kind == 'assign' else s['rv']['pl']
        if through_ref_only and not _through_ref(pl, adt, field):
            continue
        if kind == 'assign':
            out.append(('assign', 'assign', s, b))
            continue
        taint = Q.forward_taint(body, {s['lhs']['l']}, through_calls=[])
        users = [(blk, t) for blk, t in body.calls()
                 if any(Q.operand_local(a) in taint for a in t['a'] if Q.operand_local(a) is not None)]
        if not users:
            out.append(('escape', 'borrow-not-passed-to-a-call', s, b))
        for blk, t in users:
            out.append(('call', pp.callee(t), t, blk))
    return out


def _is_type(ty, adt):
    return bool(re.match(re.escape(adt) + r'(<.*>)?$', ty or ''))


# ------------------------------------------------------------------ R1
FORGETTERS = [re.compile(r'^core::mem::forget$'), re.compile(r'ManuallyDrop::<T>::new$'), re.compile(r'Box::<T, A>::leak$'),
              re.compile(r'^core::mem::MaybeUninit'), re.compile(r'Box::<T, A>::into_raw$')]
VS_FIELD_TABLE = {
    'all_variables': {(VSET + '::get_or_new_impl', 'std::collections::hash::map::HashMap::<K, V, S, A>::entry'),
                      (VSET + '::unset', 'std::collections::hash::map::HashMap::<K, V, S, A>::get_mut'),
                      (POP_IMPL, 'std::collections::hash::map::HashMap::<K, V, S, A>::retain')},
    'contexts': {(PUSH_IMPL, 'alloc::vec::Vec::<T, A>::push'), (POP_IMPL, 'alloc::vec::Vec::<T, A>::pop'),
                 (VSET + '::positional_params_mut', '<alloc::vec::Vec<T, A> as core::ops::deref::DerefMut>::deref_mut')},
}
VSET_REPLACERS = {
    'yash_env::fork::ForkEnvState::<S>::extract_from_env': 'parent state is moved out before fork',
    'yash_env::fork::ForkEnvState::<S>::restore_into_env': 'and moved back afterwards',
}
VSET_BUILDERS = {'<yash_env::variable::VariableSet as core::default::Default>::default',
                 '<yash_env::variable::VariableSet as core::clone::Clone>::clone'}


@RS.rule('C16.R1', 'K-CALLERS+K-WRITERS', 'contexts are pushed/popped only through the RAII guards; no guard is forgotten; the store is replaced only by fork save/restore')
def r1(cx):
    F = cx.F
    # a. who calls the raw push / pop
    pushers = F.callers_of(lambda names, t: PUSH_IMPL in names)
    poppers = F.callers_of(lambda names, t: POP_IMPL in names)
    cx.floor(len(pushers), 2, 'push_context_impl call sites')
    cx.floor(len(poppers), 2, 'pop_context_impl call sites')
    for b, blk, t in pushers:
        cx.site('%s calls push_context_impl at %s' % (b.fn, b.loc(t)))
        cx.fn(b.fn)
        if b.root not in (VS_PUSH, ENV_PUSH):
            cx.violation(b.root, 'caller:push_context_impl', 'a context is pushed without creating a guard: no exit path of '
                         'the caller is obliged to pop it, so temporary assignments / locals outlive the command',
                         loc=b.loc(t))
            continue
        guard = CG if b.root == VS_PUSH else ECG
        aggs = {x for x, j, s in Q.find_aggregates(b, guard) if s['lhs']['l'] == 0 or True}
        p = Q.must_pass(b, b.succ(blk), aggs)
        if p or not aggs:
            cx.violation(b.root, 'push-without-guard', 'push_context returns without constructing its guard on some path',
                         loc=b.loc(t), path=Q.render_path(b, p) if p else None)
    drops = {}
    for i in F.impls:
        if i.get('trait_def') == 'core::ops::drop::Drop' and i.get('self_adt') in (CG, ECG):
            drops[i['self_adt']] = i['items'][0]['def']
    cx.require(set(drops) == {CG, ECG}, 'impl Drop for ContextGuard / EnvContextGuard not found')
    for b, blk, t in poppers:
        cx.site('%s calls pop_context_impl at %s' % (b.fn, b.loc(t)))
        cx.fn(b.fn)
        if b.fn not in drops.values():
            cx.violation(b.root, 'caller:pop_context_impl', 'a context is popped outside the guards\' Drop: the guard that '
                         'owns the context will pop a second, unrelated context later', loc=b.loc(t))
    for adt, dfn in drops.items():
        db = F.body(dfn)
        pops = Q.find_calls(db, [POP_IMPL])
        p = Q.must_pass(db, [0], {b for b, _ in pops}) if pops else [0]
        if p:
            cx.violation(dfn, 'drop-without-pop', 'dropping the guard does not pop the context on every path: the '
                         'context leaks past the command', loc=db.loc(db.d))
    # b. nothing forgets a guard; guards are built only by push_context
    n_forget = 0
    for b, blk, t in F.callers_of(lambda names, t: any(p.search(n) for n in names for p in FORGETTERS)):
        n_forget += 1
        tys = ' '.join(t.get('at', []) + [t['f'].get('ga') or ''])
        if 'ContextGuard' in tys:
            cx.site('%s: %s on a context guard at %s' % (b.fn, pp.callee(t), b.loc(t)))
            cx.violation(b.root, 'guard-forgotten:%s' % pp.callee(t).split('::')[-1], 'a context guard is leaked by %s: its '
                         'context is never popped' % pp.callee(t), loc=b.loc(t))
    cx.site('forget/ManuallyDrop/leak call sites inspected: %d (none on a context guard allowed)' % n_forget)
    for body in F.bodies.values():
        for guard, maker in ((CG, VS_PUSH), (ECG, ENV_PUSH)):
            for b, j, s in Q.find_aggregates(body, guard):
                cx.site('%s: %s constructed at %s' % (body.fn, guard.split('::')[-1], body.loc(s)))
                if body.root != maker:
                    cx.violation(body.root, 'guard-constructed', 'a %s is constructed without pushing a context: its Drop '
                                 'pops a context it does not own' % guard.split('::')[-1], loc=body.loc(s))
    for g in (CG, ECG):
        for v in F.adt(g)['variants']:
            for f in v['fields']:
                cx.cellcount(1)
                if f['vis'] == 'pub':
                    cx.violation(g, 'guard-field-public:%s' % f['name'], 'guard field %s is public: guards can be built or '
                                 'retargeted outside push_context' % f['name'], loc='%s:%s' % (F.adt(g)['file'], F.adt(g)['line']))
        for i in F.impls:
            if i.get('self_adt') == g and i.get('trait_def') in ('core::clone::Clone', 'core::marker::Copy'):
                cx.violation(g, 'guard-clone', 'a context guard is Clone: one push, two pops', loc='%s:%s' % (i['file'], i['line']))
    # c. the whole store is replaced only by fork save / restore (and constructors)
    n_repl = 0
    for body in F.bodies.values():
        for b, j, s in body.stmts():
            if s['k'] != 'assign' or not (s['lhs'].get('p') or []):
                continue
            if not ('*' in s['lhs']['p'] and _is_type(_lhs_type(F, body, s['lhs']), VSET)):
                continue
            n_repl += 1
            cx.site('%s: whole VariableSet assigned through a reference at %s' % (body.fn, body.loc(s)))
            cx.fn(body.fn)
            if body.root not in VSET_REPLACERS:
                cx.violation(body.root, 'store-replaced:assign', 'the whole variable store is overwritten: every scope, '
                             'read-only mark and export flag is replaced at once', loc=body.loc(s))
        for b, t in body.calls():
            if Q.callee_is(t, [re.compile(r'^core::mem::(swap|replace|take)$')]) and \
                    any(re.search(r"&('\w+ )?mut yash_env::variable::VariableSet$", x) for x in t.get('at', [])):
                n_repl += 1
                cx.site('%s: %s on &mut VariableSet at %s' % (body.fn, pp.callee(t), body.loc(t)))
                cx.fn(body.fn)
                if body.root not in VSET_REPLACERS:
                    cx.violation(body.root, 'store-replaced:%s' % pp.callee(t).split('::')[-1], 'the whole variable store is '
                                 'swapped out by %s' % pp.callee(t), loc=body.loc(t))
        for b, j, s in Q.find_aggregates(body, VSET):
            cx.site('%s: VariableSet assembled at %s' % (body.fn, body.loc(s)))
            if body.root not in VSET_BUILDERS:
                cx.violation(body.root, 'store-assembled', 'a VariableSet is assembled field by field outside Default / Clone',
                             loc=body.loc(s))
    cx.floor(n_repl, 2, 'wholesale replacements of the variable store (fork save/restore)')
    # d. private stacks
    counts = dict.fromkeys(VS_FIELD_TABLE, 0)
    for body in F.bodies.values():
        for field, allowed in VS_FIELD_TABLE.items():
            for kind, desc, node, blk in _mut_uses(body, VSET, field):
                counts[field] += 1
                cx.fn(body.fn)
                cx.site('%s: VariableSet::%s <- %s at %s' % (body.fn, field, desc, body.loc(node)))
                if (body.root, desc) not in allowed:
                    cx.violation(body.root, 'store-field:%s:%s' % (field, desc.split('::')[-1]),
                                 'VariableSet::%s is changed by `%s` in a function that is not one of the reviewed '
                                 'mutators (get_or_new_impl, unset, push/pop_context_impl, positional_params_mut)'
                                 % (field, desc), loc=body.loc(node))
    cx.floor(counts['all_variables'], 2, 'mutable uses of VariableSet::all_variables')
    cx.floor(counts['contexts'], 2, 'mutable uses of VariableSet::contexts')
    cx.sample({'store_field_uses': counts, 'push_sites': len(pushers), 'pop_sites': len(poppers)})


# ------------------------------------------------------------------ R2
ASSIGN_IMPL = VREF + "::<'_>::assign_impl"
VAR_FIELD_TABLE = {
    'value': {(ASSIGN_IMPL, 'core::option::Option::<T>::replace')},
    'last_assigned_location': {(ASSIGN_IMPL, 'core::mem::replace')},
    'read_only_location': {(VREF + "::<'_>::make_read_only", 'core::option::Option::<T>::get_or_insert')},
    'is_exported': {(VREF + "::<'_>::export", 'assign')},
    # fix 18bb883: an assignment removes the LineNumber quirk, as the documentation of the quirk says (decided by C16.R11)
    'quirk': {(VREF + "::<'_>::set_quirk", 'assign'), (ASSIGN_IMPL, 'assign')},
}
GUARDED = {'value', 'last_assigned_location'}
VAR_OVERWRITERS = {VSET + '::get_or_new_impl': 'volatile variable migrates onto the regular variable it shadowed'}
MUT_VAR = re.compile(r"&('\w+ )?mut yash_env::variable::main::Variable(?![A-Za-z_0-9])")
LEAKY = [MUT_VAR, re.compile(r"&('\w+ )?mut yash_env::variable::VariableInContext"),
         re.compile(r"&('\w+ )?mut alloc::vec::Vec<yash_env::variable::VariableInContext"),
         re.compile(r"(IterMut|ValuesMut|Drain|OccupiedEntry|VacantEntry|Entry)<[^>]*yash_env::variable::(main::Variable|VariableInContext)")]
SEARCHES = re.compile(r'Iterator>?::(rposition|position|find|any)$')


def _not_read_only_edge(F, body, du, block):
    """The block is dominated by the edge on which Variable::read_only_location is None
    (a discriminant test of a copy/clone/borrow of that field, or !is_read_only())."""
    for org, lab, e in Q.dominating_conditions(F, body, du, block):
        if org['k'] == 'discr' and lab == ('variant', 'None'):
            src = du.origin({'cp': {'l': org['pl']['l']}}) if not org['pl'].get('p') else \
                {'k': 'place', 'pl': du.deref_origin(org['pl'])}
            pl = None
            if src['k'] == 'call' and Q.callee_is(src['t'], [re.compile(r'Clone>::clone$'), 'core::option::Option::<T>::as_ref']):
                pl = _trace_place(du, src['t']['a'][0])
            elif src['k'] in ('place', 'ref'):
                pl = src['pl']
            if pl is not None and _projects(pl, VAR, 'read_only_location'):
                return True
        if Q.cond_is_call(org, [VAR + '::is_read_only']) and lab == ('bool', False):
            return True
    return False


def _mentions_fn(body, fn):
    """`fn` is used as a value (fn item passed / stored), not called, somewhere in body."""
    def op(o):
        return isinstance(o, dict) and o.get('fn') == fn
    for b, j, s in body.stmts():
        rv = s.get('rv') or {}
        if any(op(rv.get(k)) for k in ('o', 'a', 'b')) or any(op(o) for o in rv.get('ops') or []):
            return True
    for b, t in body.calls():
        if any(op(a) for a in t['a']) or op(t['f'].get('indirect')):
            return True
    return False


def _absorbed_helpers(F, reviewed_roots):
    """Private helpers that are part of a reviewed writer: non-public, synchronous inherent / free functions of the
    module of the reviewed writers whose EVERY use in the workspace is a direct call from a reviewed writer
    (`assign_impl` -> `fn overwrite(&mut self, ..)` holding the success path). Such a helper is not a writer of its
    own: its body is analysed in place (F.inlined) at each call site, so the (function, operation) table and the
    read-only guard are decided where the helper is called. A helper with any other caller, or used as a value,
    or that cannot be inlined, is not absorbed (its writes are then reported as an unreviewed writer's)."""
    mods = {r.rsplit('::', 1)[0].split('::<impl')[0].split('::VariableRefMut')[0] for r in reviewed_roots}
    out = {}
    for fn, sig in F.fns.items():
        if fn in reviewed_roots or sig.get('vis') == 'pub' or sig.get('async') or fn not in F.bodies:
            continue
        if 'of_trait: true' in str(sig.get('container')):
            continue
        if not any(fn.startswith(m + '::') for m in mods):
            continue
        callers = F.callers_of(lambda names, t, fn=fn: fn in names)
        if not callers or any(b.root not in reviewed_roots for b, blk, t in callers):
            continue
        if any(_mentions_fn(b, fn) for b in F.bodies.values()):
            continue
        out[fn] = {b.fn for b, blk, t in callers}
    return out


def _with_helpers(F, body, absorbed):
    """body with the absorbed helpers it calls inlined; None if one of them could not be inlined."""
    mine = {h for h, users in absorbed.items() if body.fn in users}
    if not mine:
        return body
    nb = F.inlined(body, lambda callee: callee in mine)
    if any(Q.callee_is(t, sorted(mine)) for b, t in nb.calls()):
        return None
    return nb


_LEN = ['alloc::vec::Vec::<T, A>::len', 'core::slice::<impl [T]>::len']
_DEREF = [re.compile(r'ops::deref::Deref(Mut)?>::deref(_mut)?$')]
_INDEX = [re.compile(r'ops::index::Index(Mut)?<I>>::index(_mut)?$')]


def _pkey(p):
    return None if p is None else (p['l'], list(p.get('p') or []))


def _stack_of(du, operand, depth=3):
    """The place a `&stack` / `&*stack` / `stack.deref()` operand denotes."""
    for _ in range(depth):
        l = Q.operand_local(operand)
        d = du.single_def(l) if l is not None else None
        if d is not None and d[1] == 't' and Q.callee_is(d[2], _DEREF):
            operand = d[2]['a'][0]
            continue
        break
    return _trace_place(du, operand)


def _copy_chain(du, operand, target):
    """Positions [(block, idx)] of the single-definition plain copies that lead from `operand` back to the local
    `target` (a loop counter, which has several definitions); None if the operand is not such a copy."""
    out = []
    p = Q.operand_place(operand)
    for _ in range(8):
        if p is None or p.get('p'):
            return None
        if p['l'] == target:
            return out
        d = du.single_def(p['l'])
        if d is None or d[1] == 't' or d[2]['k'] != 'assign' or d[2]['rv']['k'] != 'use':
            return None
        out.append((d[0], d[1]))
        p = Q.operand_place(d[2]['rv']['o'])
    return None


def _explicit_scan_loop(F, body, du, rb, dr_stack, dr_from, removers):
    """`stack[from..]` is scanned for a read-only entry by an explicit counting loop that the removal at block `rb` can
    only be reached through, by the loop's exhaustion edge:
        top-down   `c = stack.len(); while c > from { c -= 1; if stack[c].variable.is_read_only() { <leave> } }`
        bottom-up  `c = from; while c < stack.len() { if stack[c].variable.is_read_only() { <leave> }; c += 1 }`
    Decided on the CFG: the exit edge that dominates the removal tests the counter against the bound the scan must reach
    (`from` resp. `stack.len()`); the counter starts at the other bound and its only other definitions are ONE +-1 step
    per iteration; every iteration passes, in the right order with respect to the step, a test
    `stack[c].variable.is_read_only()` on the same stack whose true edge leaves the loop and cannot reach the removal.
    Returns (True, closure-free evidence text) | (False, None) when no loop scan is present | (None, reason) when a
    loop that calls is_read_only guards the removal but is not one of the shapes above (caller fails closed)."""
    seen_ro_loop = None
    for org, lab, (u, v) in Q.dominating_conditions(F, body, du, rb):
        org, lab = Q.peel_not(du, org, lab)
        fw = body.reachable(u)
        L = {x for x in fw if x != u and u in body.reachable(x)} | {u}
        if len(L) == 1 and u not in [s for s in body.succ(u)]:
            continue
        if v in L or rb in L:
            continue
        ro_calls = [(b, t) for b, t in Q.find_calls(body, [VAR + '::is_read_only']) if b in L]
        if not ro_calls:
            continue
        seen_ro_loop = seen_ro_loop or 'the loop that scans for a read-only variable is not a recognised counting loop over the drained range'

        def bad(msg):
            nonlocal seen_ro_loop
            seen_ro_loop = msg
        heads = [h for h in L if all(body.dominates(h, x) for x in L)]
        if len(heads) != 1:
            bad('the scanning loop has several entries')
            continue
        head = heads[0]
        if head != u and any(head in body.reachable(s, removed=[u]) for s in body.succ(head) if s in L):
            bad('an iteration of the scanning loop can skip the exit test')
            continue

        def at_test(bk):     # in the loop, and not between the exit test and the end of the iteration
            return bk in L and (bk == u or not body.dominates(u, bk))
        if any(b in L for b, t in removers):
            bad('the scanning loop itself removes entries')
            continue
        if org['k'] != 'binop' or not at_test(org.get('b')) or lab[0] != 'bool' or org['rv']['op'] not in ('Gt', 'Lt', 'Ge', 'Le', 'Eq', 'Ne'):
            bad('the exit test of the scanning loop is not a comparison of the counter with a bound')
            continue
        # classify the operands of the exit test
        def classify(o):
            p = _trace_place(du, o)
            if p is None:
                return ('?', None)
            if dr_from is not None and _pkey(p) == _pkey(dr_from):
                return ('from', None)
            if not p.get('p'):
                ds = du.defs.get(p['l'], [])
                if len(ds) == 1 and ds[0][1] == 't' and Q.callee_is(ds[0][2], _LEN) and _pkey(_stack_of(du, ds[0][2]['a'][0])) == _pkey(dr_stack):
                    return ('len', None)
                if len(ds) > 1:
                    return ('ctr', p['l'])
            return ('?', None)
        ka, kb = classify(org['rv']['a']), classify(org['rv']['b'])
        op, truth = org['rv']['op'], lab[1]
        if kb[0] == 'ctr' and ka[0] != 'ctr':        # normalise to  ctr <op> bound
            ka, kb = kb, ka
            op = {'Gt': 'Lt', 'Lt': 'Gt', 'Ge': 'Le', 'Le': 'Ge'}.get(op, op)
            oa, ob = org['rv']['b'], org['rv']['a']
        else:
            oa, ob = org['rv']['a'], org['rv']['b']
        if ka[0] != 'ctr' or kb[0] not in ('from', 'len'):
            bad('the exit test of the scanning loop does not compare a counter with the start of the drained range or the length of the stack')
            continue
        c = ka[1]
        # exit edge means "counter has reached the bound"
        if kb[0] == 'from':      # top-down: leaves when c <= from
            reached = (op, truth) in (('Gt', False), ('Le', True), ('Eq', True), ('Ne', False))
            want_step, init_kind = -1, 'len'
        else:                    # bottom-up: leaves when c >= len
            reached = (op, truth) in (('Lt', False), ('Ge', True), ('Eq', True), ('Ne', False))
            want_step, init_kind = 1, 'from'
        if not reached:
            bad('the removal is not on the edge where the scanning loop has reached the end of the range')
            continue
        chain = _copy_chain(du, oa, c)
        if chain is None or not all(at_test(b) for b, j in chain):
            bad('the exit test of the scanning loop reads a stale copy of the counter')
            continue
        if dr_from is None or any(d[0] in L for d in du.defs.get(dr_from['l'], [])):
            bad('the start of the drained range changes inside the scanning loop')
            continue
        # the counter is not written through a reference
        if any(s['k'] == 'assign' and s['rv']['k'] == 'ref' and s['rv'].get('mut') and s['rv']['pl']['l'] == c for b, j, s in body.stmts()):
            bad('the counter of the scanning loop is borrowed mutably')
            continue
        # definitions of the counter: one initialisation before the loop, one +-1 step inside
        inits, steps, other = [], [], False
        for d in du.defs.get(c, []):
            blk, idx, node = d
            if not Q.is_plain(node.get('lhs') or node.get('dest')):
                other = True
            elif blk not in L:
                inits.append(d)
            else:
                st = None
                if idx != 't' and node['k'] == 'assign':
                    rv = node['rv']
                    if rv['k'] == 'use':
                        q = Q.operand_place(rv['o'])
                        if q is not None and [e.get('f') if isinstance(e, dict) else e for e in q.get('p') or []] == ['0']:
                            dd = du.single_def(q['l'])
                            rv = dd[2]['rv'] if dd is not None and dd[1] != 't' and dd[2]['k'] == 'assign' and dd[0] in L else rv
                    if rv['k'] == 'binop' and rv['op'] in ('Add', 'Sub', 'AddWithOverflow', 'SubWithOverflow', 'AddUnchecked', 'SubUnchecked') \
                            and _pkey(Q.operand_place(rv['a'])) == (c, []) and re.match(r'^1(_usize)?$', str(rv['b'].get('c', ''))):
                        st = 1 if rv['op'].startswith('Add') else -1
                if st is None:
                    other = True
                else:
                    steps.append((blk, idx, st))
        if other or len(inits) != 1 or len(steps) != 1 or steps[0][2] != want_step or not body.dominates(inits[0][0], u):
            bad('the counter of the scanning loop is not initialised once and stepped by one once per iteration towards the end of the range')
            continue
        ib, ii, inode = inits[0]
        if init_kind == 'len':
            init_ok = ii == 't' and Q.callee_is(inode, _LEN) and _pkey(_stack_of(du, inode['a'][0])) == _pkey(dr_stack)
        else:
            init_ok = ii != 't' and inode['k'] == 'assign' and inode['rv']['k'] == 'use' and _pkey(_trace_place(du, inode['rv']['o'])) == _pkey(dr_from)
        if not init_ok:
            bad('the scanning loop does not start at the %s' % ('top of the stack' if init_kind == 'len' else 'start of the drained range'))
            continue
        sb, si, _ = steps[0]
        if not body.dominates(u, sb):
            bad('the counter of the scanning loop is stepped before the exit test')
            continue
        # every iteration performs the step
        if any(u in body.reachable(s, removed=[sb]) for s in body.succ(u) if s in L and s != sb) or \
                (sb == u):
            bad('an iteration of the scanning loop can skip the step of the counter')
            continue
        # the tests  stack[c].variable.is_read_only()  whose true edge leaves for good
        cont_edges = set()
        for b, t in ro_calls:
            p = _trace_place(du, t['a'][0])
            if p is None or not _projects(p, VIC, 'variable'):
                continue
            d = du.single_def(p['l'])
            if d is None or d[1] != 't' or not Q.callee_is(d[2], _INDEX):
                continue
            it = d[2]
            if _pkey(_stack_of(du, it['a'][0])) != _pkey(dr_stack):
                continue
            ch = _copy_chain(du, it['a'][1], c)
            if ch is None:
                continue
            pos = ch + [(d[0], 't')]
            if not all(body.dominates(u, bk) and bk != u for bk, j in pos):
                continue

            def after_step(bk, j):
                return (bk == sb and (j == 't' or j > si)) or (bk != sb and bk in L and body.dominates(sb, bk))

            def before_step(bk, j):
                return bk in L and ((bk == sb and j != 't' and j < si) or (bk != sb and body.dominates(bk, sb)))
            if not all((after_step if want_step < 0 else before_step)(bk, j) for bk, j in pos):
                continue
            for sw in L:
                if body.term(sw)['k'] != 'switch':
                    continue
                ec = Q.edge_condition(F, body, du, sw)
                if ec is None:
                    continue
                for tgt, labs in ec[1].items():
                    for lb in labs:
                        o2, l2 = Q.peel_not(du, ec[0], lb)
                        if o2.get('k') == 'call' and o2['t'] is t and l2 == ('bool', False):
                            others = [x for x in body.succ(sw) if x != tgt]
                            if all(x not in L and rb not in body.reachable(x) for x in others):
                                cont_edges.add((sw, tgt))
        if not cont_edges:
            bad('no test `stack[counter].variable.is_read_only()` on the drained stack leaves the scanning loop for good when it finds a read-only entry')
            continue
        sws = {sw for sw, tgt in cont_edges}
        if sb in sws or u in sws:
            bad('the step of the counter is entangled with the is_read_only() test')
            continue
        if want_step < 0:
            # step -> test (false edge) -> header
            thru = body.reachable(sb, removed_edges=cont_edges)
            passed = u not in thru and rb not in thru
        else:
            # header -> test (false edge) -> step
            passed = all(sb not in body.reachable(s, removed_edges=cont_edges) for s in body.succ(u) if s in L)
        if not passed:
            bad('an iteration of the scanning loop can move on to the next entry without testing is_read_only()')
            continue
        return True, '%s counting loop over stack[from..] with is_read_only() test at %s' % (
            'top-down' if want_step < 0 else 'bottom-up', body.loc(body.term(sorted(sws)[0])))
    if seen_ro_loop:
        return None, seen_ro_loop
    return False, None


@RS.rule('C16.R2', 'K-GUARD+K-WRITERS+K-TYPE', 'read-only variables: value written only on the not-read-only edge, read-only mark never cleared, unset scans what it drains, no &mut Variable handed out')
def r2(cx):
    F = cx.F
    counts = dict.fromkeys(VAR_FIELD_TABLE, 0)
    reviewed = {fn for allowed in VAR_FIELD_TABLE.values() for fn, _ in allowed}
    absorbed = _absorbed_helpers(F, reviewed)
    bodies = []
    for body in F.bodies.values():
        if body.root in reviewed:
            nb = _with_helpers(F, body, absorbed)
            if nb is None:          # not inlinable: the helpers stay writers of their own (reported below)
                for h in [h for h, users in absorbed.items() if body.fn in users]:
                    del absorbed[h]
                nb = body
            bodies.append(nb)
        else:
            bodies.append(body)
    for h, users in sorted(absorbed.items()):
        cx.site('%s: private helper called only by %s: analysed in place at its call sites' % (h, sorted(users)))
    for body in bodies:
        if body.fn in absorbed:
            continue
        du = None
        for field, allowed in VAR_FIELD_TABLE.items():
            for kind, desc, node, blk in _mut_uses(body, VAR, field, through_ref_only=True):
                counts[field] += 1
                cx.fn(body.fn)
                cx.site('%s: Variable::%s <- %s (through a reference) at %s' % (body.fn, field, desc, body.loc(node)))
                if (body.root, desc) not in allowed:
                    what = {'value': 'the value of a variable changes without the read-only check',
                            'last_assigned_location': 'the assignment location changes without an assignment',
                            'read_only_location': 'the read-only mark can be cleared or moved (only Option::get_or_insert in '
                                                  'make_read_only may touch it)',
                            'is_exported': 'the export flag changes outside VariableRefMut::export',
                            'quirk': 'the quirk changes outside set_quirk'}[field]
                    cx.violation(body.root, 'variable-field:%s:%s' % (field, desc.split('::')[-1]),
                                 'Variable::%s is changed through a reference by `%s`: %s' % (field, desc, what),
                                 loc=body.loc(node))
                elif field in GUARDED:
                    du = du or Q.DefUse(body)
                    if not _not_read_only_edge(F, body, du, blk):
                        cx.violation(body.root, 'unguarded:%s' % field, 'Variable::%s is written without being on the edge '
                                     'where read_only_location is None: a read-only variable can be assigned' % field,
                                     loc=body.loc(node))
        # whole Variable overwritten through a reference
        for b, j, s in body.stmts():
            if s['k'] != 'assign' or '*' not in (s['lhs'].get('p') or []):
                continue
            if _is_type(_lhs_type(F, body, s['lhs']), VAR):
                cx.site('%s: whole Variable overwritten through a reference at %s' % (body.fn, body.loc(s)))
                cx.fn(body.fn)
                if body.root not in VAR_OVERWRITERS:
                    cx.violation(body.root, 'variable-overwritten', 'a stored Variable is replaced wholesale (value, export flag '
                                 'and read-only mark at once) outside get_or_new_impl', loc=body.loc(s))
        for b, t in body.calls():
            if Q.callee_is(t, [re.compile(r'^core::mem::(swap|replace|take)$')]) and any(MUT_VAR.search(x) for x in t.get('at', [])):
                cx.site('%s: %s on &mut Variable at %s' % (body.fn, pp.callee(t), body.loc(t)))
                cx.violation(body.root, 'variable-swapped:%s' % pp.callee(t).split('::')[-1], 'a stored Variable is swapped out by %s'
                             % pp.callee(t), loc=body.loc(t))
    for field, n in counts.items():
        if n == 0:
            cx.violation(sorted(VAR_FIELD_TABLE[field])[0][0], 'writer-missing:%s' % field, 'the reviewed writer of Variable::%s '
                         'no longer writes it' % field, loc=None)
    cx.sample({'variable_field_writes_through_ref': counts})

    # unset: drain only after scanning the same range for read-only variables
    body = F.body(VSET + '::unset')
    cx.fn(body.fn)
    du = Q.DefUse(body)
    removers = Q.find_calls(body, [re.compile(r'^alloc::vec::Vec::<T, A>::(drain|pop|remove|truncate|clear|swap_remove|split_off|retain|pop_if|extract_if)$'),
                                   re.compile(r'hash::map::HashMap::<K, V, S, A>::(remove|remove_entry|clear|drain|retain)$')])
    if not removers:
        cx.violation(body.root, 'unset-removes-nothing', 'VariableSet::unset no longer removes variables', loc=body.loc(body.d))
    for rb, rt in removers:
        cx.site('%s: %s at %s' % (body.fn, pp.callee(rt), body.loc(rt)))
        ok = False
        why = 'no search for a read-only variable dominates it'
        dr_stack = _trace_place(du, rt['a'][0])
        dr_rng = du.origin(rt['a'][1]) if len(rt['a']) > 1 else None
        dr_from = None
        if dr_rng and dr_rng['k'] == 'agg' and 'RangeFrom' in (dr_rng['rv'].get('adt') or ''):
            dr_from = _trace_place(du, dr_rng['rv']['ops'][0])
        for org, lab, e in Q.dominating_conditions(F, body, du, rb):
            call = None
            if org['k'] == 'discr' and not org['pl'].get('p') and lab == ('variant', 'None'):
                o2 = du.origin({'cp': {'l': org['pl']['l']}})
                call = o2['t'] if o2['k'] == 'call' else None
            elif org['k'] == 'call' and lab == ('bool', False):
                call = org['t']
            if call is None or not any(SEARCHES.search(n) for n in Q.callee_names(call)):
                continue
            # the predicate is `vic.variable.is_read_only()`
            clo = du.origin(call['a'][1])
            if not (clo['k'] == 'agg' and clo['rv'].get('ak') == 'closure' and clo['rv'].get('def') in F.bodies):
                why = 'the search predicate is not a closure'
                continue
            cb = F.bodies[clo['rv']['def']]
            ro = [t for b, t in Q.find_calls(cb, [VAR + '::is_read_only']) if t['dest']['l'] == 0]
            if len(ro) != 1:
                why = 'the search predicate is not `is_read_only()`'
                continue
            # the searched slice is stack[index..] with the stack and index that are drained
            it = Q.value_source(body, du, call['a'][0])
            sl = Q.value_source(body, du, it['a'][0]) if it is not None and Q.callee_is(it, ['core::slice::<impl [T]>::iter']) else it
            if sl is None or not Q.callee_is(sl, [re.compile(r'ops::index::Index<I>>::index$')]):
                why = 'the searched range is not an index expression on the stack'
                continue
            s_stack = _trace_place(du, sl['a'][0])
            s_rng = du.origin(sl['a'][1])
            s_from = _trace_place(du, s_rng['rv']['ops'][0]) if s_rng['k'] == 'agg' and 'RangeFrom' in (s_rng['rv'].get('adt') or '') else None
            if dr_stack is None or s_stack is None or dr_stack != s_stack:
                why = 'the searched stack is not the drained stack'
                continue
            if Q.callee_is(rt, ['alloc::vec::Vec::<T, A>::drain']) and (dr_from is None or s_from is None or dr_from != s_from):
                why = 'the searched range differs from the drained range'
                continue
            ok = True
            cx.fn(cb.fn)
        if not ok and Q.callee_is(rt, ['alloc::vec::Vec::<T, A>::drain']) and dr_stack is not None:
            # the same search written as an explicit counting loop (no std search adapter, no closure)
            verdict, text = _explicit_scan_loop(F, body, du, rb, dr_stack, dr_from, removers)
            if verdict:
                ok = True
                cx.site('%s: %s' % (body.fn, text))
            else:
                # a loop that tests is_read_only() guards the drain but is not a shape this rule can decide: no verdict
                cx.require(verdict is not None, 'VariableSet::unset scans for read-only variables with a hand-written loop '
                           'that cannot be decided (%s)' % text)
        if not ok:
            cx.violation(body.root, 'unset-unscanned:%s' % pp.callee(rt).split('::')[-1], 'unset removes variables although %s: a '
                         'read-only variable in the removed range is unset' % why, loc=body.loc(rt))
    # K-TYPE
    rm = F.adt(VREF)
    inner = rm['variants'][0]['fields']
    cx.require(len(inner) == 1 and MUT_VAR.search(inner[0]['ty']), 'VariableRefMut is no longer a wrapper of &mut Variable')
    cx.site('VariableRefMut(%s) field visibility: %s' % (inner[0]['ty'], inner[0]['vis']))
    if not re.search(r'^restricted\(DefId\(.*~ yash_env\[\w+\]::variable::main\)\)$', inner[0]['vis']):
        cx.violation(VREF, 'inner-visible', 'the &mut Variable inside VariableRefMut is visible outside variable::main',
                     loc='%s:%s' % (rm['file'], rm['line']))
    have_deref = False
    for i in F.impls:
        if i.get('self_adt') != VREF or not i.get('trait_def'):
            continue
        cx.site('impl %s for %s at %s:%s' % (i.get('trait'), i.get('self'), i['file'], i['line']))
        td = i['trait_def']
        have_deref |= td == 'core::ops::deref::Deref'
        if td in ('core::ops::deref::DerefMut', 'core::convert::AsMut', 'core::borrow::BorrowMut', 'core::clone::Clone'):
            cx.violation(VREF, 'impl:%s' % td.split('::')[-1], 'impl %s for VariableRefMut lets callers write Variable::value / '
                         'read_only_location directly, bypassing the read-only check' % i.get('trait'),
                         loc='%s:%s' % (i['file'], i['line']))
    cx.require(have_deref, 'impl Deref for VariableRefMut not found')
    n = 0
    for path, fn in F.fns.items():
        if fn['vis'] != 'pub':
            continue
        if 'yash_env::variable' in path or 'yash_env::variable' in fn['output']:
            n += 1
        if any(p.search(fn['output']) for p in LEAKY):
            cx.violation(path, 'returns-mut-variable', 'public function returns `%s`: callers can change the value or clear the '
                         'read-only mark of a stored variable' % fn['output'], loc='%s:%s' % (fn['file'], fn['line']))
    cx.cellcount(n)
    for path, adt in F.adts.items():
        if path.startswith('yash_env::variable::'):
            for v in adt['variants']:
                for f in v['fields']:
                    if f['vis'] == 'pub' and any(p.search(f['ty']) for p in LEAKY):
                        cx.violation(path, 'public-field:%s' % f['name'], 'public field %s: %s exposes a stored variable mutably'
                                     % (f['name'], f['ty']), loc='%s:%s' % (adt['file'], adt['line']))


# ------------------------------------------------------------------ R3
def _const_bool(o):
    if 'cp' in o or 'mv' in o:
        return None
    c = str(o.get('c', ''))
    return True if c.startswith('true') else False if c.startswith('false') else None


def _bool_sources(body, du, operand, depth=8):
    """[(value, defining block)] of a bool operand: a constant, or a local / tuple field
    assigned constants on several paths (`let (x, export) = if c { (.., false) } else { (.., true) }`)."""
    v = _const_bool(operand)
    if v is not None:
        return [(v, None)]
    p = Q.operand_place(operand)
    for _ in range(depth):
        proj = p.get('p') or []
        defs = du.defs.get(p['l'], [])
        if len(defs) == 1 and defs[0][1] != 't' and defs[0][2]['k'] == 'assign' and defs[0][2]['rv']['k'] == 'use' and not proj:
            o = defs[0][2]['rv']['o']
            v = _const_bool(o)
            if v is not None:
                return [(v, defs[0][0])]
            p = Q.operand_place(o)
            continue
        out = []
        for blk, idx, node in defs:
            if idx == 't' or node['k'] != 'assign':
                return None
            rv = node['rv']
            if rv['k'] == 'agg' and rv.get('ak') == 'tuple' and len(proj) == 1 and isinstance(proj[0], dict) and 'f' in proj[0]:
                v = _const_bool(rv['ops'][int(proj[0]['f'])])
            elif rv['k'] == 'use' and not proj:
                v = _const_bool(rv['o'])
            else:
                v = None
            if v is None:
                return None
            out.append((v, blk))
        return out or None
    return None


def _guard_consumed_before(body, guard_local, pb, goal):
    """A call that takes the guard by value (drop, pop_context) between push and goal."""
    for b, t in body.calls():
        if any('mv' in a and Q.operand_local(a) == guard_local and not a['mv'].get('p') for a in t['a']):
            if b in body.reachable(pb) and goal in body.reachable(b) and b != goal:
                return t
    return None


def _check_command(cx, root, want_export, runners):
    """perform_assignments(export) in `root` against the context discipline."""
    F = cx.F
    body = F.main_body(root)
    cx.fn(body.fn)
    du = Q.DefUse(body)
    pushes = Q.find_calls(body, [ENV_PUSH, VS_PUSH])
    anywhere = [(b, t) for bd in F.logical(root) for b, t in Q.find_calls(bd, [ENV_PUSH, VS_PUSH])]
    pas = Q.find_calls(body, [WRAP])
    short = root.split('::')[-1]
    if len(pas) != 1:
        cx.site('%s: %d perform_assignments calls' % (short, len(pas)))
        cx.violation(root, 'assignments-count', '%s must perform the assignment prefix exactly once (found %d calls)' % (short, len(pas)),
                     loc=body.loc(body.d))
        return
    ab, at = pas[0]
    srcs = _bool_sources(body, du, at['a'][2])
    cx.site('%s: perform_assignments(export=%s) at %s; %d push_context' % (short, srcs, body.loc(at), len(anywhere)))
    if srcs is None or {v for v, _ in srcs} != {want_export}:
        cx.violation(root, 'export-flag', '%s must pass export = %s to perform_assignments (found %s): %s'
                     % (short, str(want_export).lower(), srcs,
                        'the assignment prefix would not reach the environment of the command' if want_export else
                        'plain assignments would be exported and stored in a volatile scope'), loc=body.loc(at))
    if not want_export:
        if anywhere:
            cx.violation(root, 'context-pushed', '%s pushes a variable context: assignments of a command-less simple '
                         'command must persist in the global scope' % short, loc=body.loc(at))
        return
    vol = []
    for b, t in pushes:
        org = du.origin(t['a'][1])
        if org['k'] == 'agg' and org['rv'].get('adt') == V + 'Context' and org['rv'].get('variant') == 'Volatile':
            vol.append((b, t))
    if not any(body.dominates(b, ab) and b != ab for b, t in vol):
        cx.violation(root, 'no-volatile-context', 'perform_assignments(export = true) in %s is not dominated by '
                     'push_context(Context::Volatile): the temporary assignments become permanent global variables' % short,
                     loc=body.loc(at))
        return
    pb, pt = [x for x in vol if body.dominates(x[0], ab)][-1]
    guard = pt['dest']['l']
    env_taint = Q.forward_taint(body, {guard}, through_calls=[re.compile(r'DerefMut>::deref_mut$'), re.compile(r'Deref>::deref$')])
    if Q.operand_local(at['a'][0]) not in env_taint:
        cx.violation(root, 'assign-outside-guard', 'perform_assignments does not receive the environment of the volatile '
                     'context guard', loc=body.loc(at))
    run = Q.find_calls(body, runners)
    if not run:
        cx.violation(root, 'runner-missing', '%s no longer runs its command (%s)' % (short, runners), loc=body.loc(body.d))
    for rb, rt in run:
        cx.site('%s: command runs at %s' % (short, body.loc(rt)))
        if not body.dominates(ab, rb):
            cx.violation(root, 'run-before-assign', 'the command can run before its assignment prefix is performed',
                         loc=body.loc(rt))
        early = _guard_consumed_before(body, guard, pb, rb)
        if early is not None:
            cx.violation(root, 'context-popped-early', 'the volatile context is popped (%s) before the command runs: the '
                         'command does not see its temporary assignments' % pp.callee(early), loc=body.loc(early))


@RS.rule('C16.R3', 'K-GUARD+K-ORDER', 'scope and export per command kind: function / external: Volatile + export; no command: Global; built-in: by type == Special')
def r3(cx):
    F = cx.F
    _check_command(cx, SC + 'function::execute_function', True, [SC + 'function::execute_function_body'])
    _check_command(cx, SC + 'external::execute_external_utility', True,
                   [SC + 'external::start_external_utility_in_subshell_and_wait'])
    _check_command(cx, SC + 'absent::execute_absent_target', False, [])
    # built-in: decided by `builtin.type == Special`
    root = SC + 'builtin::execute_builtin'
    body = F.main_body(root)
    cx.fn(body.fn)
    du = Q.DefUse(body)
    pas = Q.find_calls(body, [WRAP])
    pushes = Q.find_calls(body, [ENV_PUSH, VS_PUSH])
    cx.site('execute_builtin: %d perform_assignments, %d push_context' % (len(pas), len(pushes)))

    def special_edge(block):
        """True / False if the block is dominated by `type == Special` being true / false."""
        for org, lab, e in Q.dominating_conditions(F, body, du, block):
            if org['k'] == 'call' and Q.callee_is(org['t'], [re.compile(r'builtin::Type as core::cmp::PartialEq>::(eq|ne)$')]):
                consts = []
                for a in org['t']['a']:
                    pl = _trace_place(du, a)
                    d = du.single_def(pl['l']) if pl is not None and not pl.get('p') else None
                    if d and d[1] != 't' and d[2]['k'] == 'assign' and d[2]['rv']['k'] == 'agg':
                        consts.append(d[2]['rv'].get('variant'))
                if consts == ['Special'] and lab[0] == 'bool':
                    is_eq = Q.callee_is(org['t'], [re.compile(r'::eq$')])
                    return lab[1] if is_eq else (not lab[1])
        return None
    if len(pas) != 1:
        cx.violation(root, 'assignments-count', 'execute_builtin must perform the assignment prefix exactly once', loc=body.loc(body.d))
    else:
        ab, at = pas[0]
        srcs = _bool_sources(body, du, at['a'][2])
        cx.site('execute_builtin: export sources %s' % srcs)
        vol = [(b, t) for b, t in pushes if (lambda o: o['k'] == 'agg' and o['rv'].get('variant') == 'Volatile')(du.origin(t['a'][1]))]
        if srcs is None or {v for v, _ in srcs} != {True, False}:
            cx.violation(root, 'export-flag', 'execute_builtin must export exactly for non-special built-ins (export sources: %s)'
                         % srcs, loc=body.loc(at))
        else:
            for v, blk in srcs:
                sp = special_edge(blk) if blk is not None else None
                pushed = any(body.dominates(b, blk) for b, t in vol) if blk is not None else False
                reach_push = any(blk in body.reachable(b) for b, t in vol) if blk is not None else True
                cx.site('execute_builtin: export=%s chosen on special=%s edge, volatile context pushed=%s' % (v, sp, pushed))
                if v and (sp is not False or not pushed):
                    cx.violation(root, 'regular-builtin-scope', 'export = true must be chosen exactly on the `type == Special` false '
                                 'edge after push_context(Volatile): otherwise assignments prefixed to a regular built-in '
                                 'persist, or those of a special built-in are lost', loc=body.loc(at))
                if not v and (sp is not True or reach_push):
                    cx.violation(root, 'special-builtin-scope', 'export = false (global, persistent assignment) must be chosen '
                                 'exactly on the `type == Special` true edge with no volatile context: otherwise assignments '
                                 'prefixed to a special built-in do not persist', loc=body.loc(at))
        for b, t in pushes:
            if (b, t) not in vol:
                cx.violation(root, 'context-kind', 'execute_builtin pushes a non-volatile context', loc=body.loc(t))
        for b, t in vol:
            early = _guard_consumed_before(body, t['dest']['l'], b, ab)
            if early is not None:
                cx.violation(root, 'context-popped-early', 'the volatile context is popped before the assignments', loc=body.loc(early))
    # the wrapper: export -> Scope::Volatile, !export -> Scope::Global, both forwarded
    wb = F.main_body(WRAP)
    cx.fn(wb.fn)
    wdu = Q.DefUse(wb)
    inner = Q.find_calls(wb, ['yash_semantics::assign::perform_assignments'])
    cx.require(len(inner) == 1, 'simple_command::perform_assignments does not call assign::perform_assignments once')
    ib, it = inner[0]

    def is_export_param(operand):
        pl = _trace_place(wdu, operand)
        if pl is None:
            return False
        pr = pl.get('p') or []
        return pl['l'] == 1 and len(pr) == 1 and isinstance(pr[0], dict) and pr[0].get('ty') == 'bool' or \
            (not pr and wb.locals[pl['l']].get('ty') == 'bool' and 1 <= pl['l'] <= wb.argc)
    if not is_export_param(it['a'][3]):
        cx.violation(WRAP, 'export-not-forwarded', 'the export flag given to assign::perform_assignments is not the wrapper\'s '
                     'export parameter', loc=wb.loc(it))
    sl = _trace_place(wdu, it['a'][2])
    got = {}
    for blk, idx, node in wdu.defs.get(sl['l'], []) if sl is not None else []:
        if idx == 't' or node['k'] != 'assign' or node['rv']['k'] != 'agg' or node['rv'].get('adt') != V + 'Scope':
            got = None
            break
        variant = node['rv']['variant']
        edge = None
        for org, lab, e in Q.dominating_conditions(F, wb, wdu, blk):
            if lab[0] != 'bool':
                continue
            if org['k'] == 'place' and is_export_param({'cp': org['pl']}):
                edge = lab[1]
            elif org['k'] == 'arg' and wb.locals[org['l']].get('ty') == 'bool':
                edge = lab[1]
            elif org['k'] == 'unop' and org['rv']['op'] == 'Not' and is_export_param(org['rv']['o']):
                edge = not lab[1]
        got[variant] = edge
    cx.site('perform_assignments wrapper: scope by export = %s' % got)
    cx.cellcount(2)
    if got != {'Volatile': True, 'Global': False}:
        cx.violation(WRAP, 'scope-table', 'perform_assignments must map export -> Scope::Volatile and !export -> Scope::Global '
                     '(found %s): exported temporary assignments must live in the volatile context, plain ones in the '
                     'global scope' % got, loc=wb.loc(it))
    # callers of the wrapper are the four command kinds
    for b, blk, t in F.callers_of(lambda names, t: WRAP in names):
        cx.site('%s calls perform_assignments at %s' % (b.root, b.loc(t)))
        if b.root not in (SC + 'function::execute_function', SC + 'external::execute_external_utility',
                          SC + 'absent::execute_absent_target', root):
            cx.violation(b.root, 'caller:perform_assignments', 'assignment prefix performed by an unreviewed command kind', loc=b.loc(t))
    # function body: Regular context carrying the positional parameters
    fb = F.main_body(SC + 'function::execute_function_body')
    cx.fn(fb.fn)
    fdu = Q.DefUse(fb)
    ps = Q.find_calls(fb, [ENV_PUSH, VS_PUSH])
    ex = Q.find_calls(fb, ['*::FunctionBodyObject::execute', '*::FunctionBody::execute'])
    cx.site('execute_function_body: %d push_context, %d body.execute' % (len(ps), len(ex)))
    okp = None
    for b, t in ps:
        org = fdu.origin(t['a'][1])
        if org['k'] == 'agg' and org['rv'].get('adt') == V + 'Context' and org['rv'].get('variant') == 'Regular':
            src = Q.value_source(fb, fdu, org['rv']['ops'][0])
            if src is not None and Q.callee_is(src, [V + 'PositionalParams::from_fields']):
                okp = (b, t)
    if okp is None:
        cx.violation(fb.root, 'no-regular-context', 'the function body does not run in a new Regular context holding '
                     'PositionalParams::from_fields(fields): locals and $1.. of the function leak into / clobber the caller',
                     loc=fb.loc(fb.d))
    if not ex:
        cx.violation(fb.root, 'body-not-executed', 'execute_function_body does not execute the body', loc=fb.loc(fb.d))
    for b, t in ex:
        if okp is not None:
            if not fb.dominates(okp[0], b):
                cx.violation(fb.root, 'body-outside-context', 'the function body can run without its Regular context', loc=fb.loc(t))
            early = _guard_consumed_before(fb, okp[1]['dest']['l'], okp[0], b)
            if early is not None:
                cx.violation(fb.root, 'context-popped-early', 'the Regular context is popped before the body runs', loc=fb.loc(early))
            taint = Q.forward_taint(fb, {okp[1]['dest']['l']}, through_calls=[re.compile(r'DerefMut>::deref_mut$')])
            if not any(Q.operand_local(a) in taint for a in t['a']):
                cx.violation(fb.root, 'body-other-env', 'the body is not executed in the environment of the context guard', loc=fb.loc(t))


# ------------------------------------------------------------------ R4
RCP = 'yash_env::semantics::command::replace_current_process'
FBS = 'yash_env::semantics::command::fall_back_on_sh'
ECS = VSET + '::env_c_strings'


@RS.rule('C16.R4', 'K-CALLERS+K-GUARD', 'the environment of executed programs is env_c_strings(): exported, top-most variables only')
def r4(cx):
    F = cx.F
    calls = F.callers_of(lambda names, t: any(n.endswith('::Exec::execve') or n == 'libc::unix::execve' for n in names))
    cx.floor(len(calls), 2, 'execve call sites')
    for b, blk, t in calls:
        cx.site('%s: %s at %s' % (b.fn, pp.callee(t), b.loc(t)))
        cx.fn(b.fn)
        is_impl = bool(re.search(r'Exec(>| for .*>)::execve$', b.root))
        if b.root in (RCP, FBS) or is_impl:
            continue
        cx.violation(b.root, 'caller:execve', 'a program is executed outside replace_current_process: its environment is not '
                     'derived from the exported variables', loc=b.loc(t))
    body = F.main_body(RCP)
    du = Q.DefUse(body)
    ecs = Q.find_calls(body, [ECS])
    if len(ecs) != 1:
        cx.violation(RCP, 'env_c_strings-count', 'replace_current_process must compute the environment once with '
                     'env.variables.env_c_strings()', loc=body.loc(body.d))
    else:
        eb, et = ecs[0]
        envs = Q.forward_taint(body, {et['dest']['l']},
                               through_calls=[re.compile(r'Vec::<T, A>::as_slice$'), re.compile(r'Deref>::deref$')])
        recv = _trace_place(du, et['a'][0])
        if recv is None or not _projects(recv, 'yash_env::Env', 'variables'):
            cx.violation(RCP, 'env-source', 'env_c_strings is not applied to env.variables', loc=body.loc(et))
        for b, t in Q.find_calls(body, ['*::Exec::execve']):
            if Q.operand_local(t['a'][3]) not in envs or not body.dominates(eb, b):
                cx.violation(RCP, 'execve-env', 'execve is not given the strings computed by env_c_strings()', loc=body.loc(t))
        for b, t in Q.find_calls(body, [FBS]):
            if Q.operand_local(t['a'][3]) not in envs:
                cx.violation(RCP, 'fallback-env', 'the sh fallback is not given the strings computed by env_c_strings()', loc=body.loc(t))
    for b, blk, t in F.callers_of(lambda names, t: FBS in names):
        if b.root != RCP:
            cx.violation(b.root, 'caller:fall_back_on_sh', 'fall_back_on_sh called outside replace_current_process', loc=b.loc(t))
    fb = F.main_body(FBS)
    fdu = Q.DefUse(fb)
    for b, t in Q.find_calls(fb, ['*::Exec::execve']):
        pl = _trace_place(fdu, t['a'][3])
        pr = (pl or {}).get('p') or []
        is_param = pl is not None and ((pl['l'] == 1 and len(pr) == 1 and isinstance(pr[0], dict) and pr[0].get('f') == '3') or
                                       (not pr and pl['l'] == 4 and fb.argc >= 4))
        cx.site('%s: execve envs is the `envs` parameter: %s' % (fb.fn, is_param))
        if not is_param:
            cx.violation(FBS, 'fallback-execve-env', 'the sh fallback does not pass on the environment it was given', loc=fb.loc(t))
    # env_c_strings: a string is produced only for exported, top-most variables
    cb = F.body(ECS + '::{closure#0}')
    cx.fn(cb.fn)
    cdu = Q.DefUse(cb)
    makers = Q.find_calls(cb, [re.compile(r'^alloc::ffi::c_str::CString::new$'), re.compile(r'CString::(new|from_vec_unchecked|from_vec_with_nul)')])
    cx.require(makers, 'env_c_strings no longer builds CStrings in its closure')
    for b, t in makers:
        exported = False
        top = False
        for org, lab, e in Q.dominating_conditions(F, cb, cdu, b):
            pl = org.get('pl') if org['k'] in ('place', 'ref') else None
            if pl is not None and _projects(pl, VAR, 'is_exported') and lab == ('bool', True):
                exported = True
                base = _trace_place(cdu, {'cp': {'l': pl['l']}})
                src = Q.value_source(cb, cdu, {'cp': {'l': base['l']}}) if base is not None else None
                top = src is not None and Q.callee_is(src, ['core::slice::<impl [T]>::last', re.compile(r'Vec::<T, A>::last$')])
            if org['k'] == 'unop' and lab == ('bool', False):
                o = org['rv']['o']
                pl2 = Q.operand_place(o)
                if pl2 is not None and _projects(pl2, VAR, 'is_exported'):
                    exported = True
        cx.site('%s: CString::new at %s; under is_exported: %s; variable is stack.last(): %s' % (cb.fn, cb.loc(t), exported, top))
        if not exported:
            cx.violation(ECS, 'unexported-in-environment', 'an environment string is built without being on the is_exported == '
                         'true edge: unexported variables reach executed programs', loc=cb.loc(t))
        elif not top:
            cx.violation(ECS, 'hidden-variable-in-environment', 'the exported variable is not the top-most (visible) variable of '
                         'its name', loc=cb.loc(t))
    for b, blk, t in F.callers_of(lambda names, t: ECS in names):
        cx.site('%s calls env_c_strings at %s' % (b.root, b.loc(t)))

import witness
witness.add(RS, 'C16.R2w', ['c16_variablerefmut_value', 'c16_variablerefmut_readonly'],
            'compile-fail witness: neither the value nor the read-only mark can be written through VariableRefMut (E0594); assign() compiles')


@RS.rule('C16.R5', 'K-PASS', 'a temporary (volatile-scope) variable always lives in the current volatile context: an existing entry is reused in place only if it belongs to that very context')
def r5(cx):
    F = cx.F
    b = F.inlined(F.body('yash_env::variable::VariableSet::get_or_new_impl'),
                  lambda callee: callee.startswith('yash_env::variable::VariableSet::') and (F.fns.get(callee) or {}).get('vis') != 'pub')
    cx.fn(b.fn)
    du = Q.DefUse(b)
    lasts = Q.find_calls(b, ['core::slice::<impl [T]>::last'])
    pushes = Q.find_calls(b, ['alloc::vec::Vec::<T, A>::push'])
    cx.require(len(lasts) == 1, 'the `stack.last()` lookup of the volatile arm was not found (found %d)' % len(lasts))
    cx.require(pushes, 'no Vec::push in get_or_new_impl')
    start = lasts[0][0]
    allowed = set()
    for u in b.live_blocks():
        ec = Q.edge_condition(F, b, du, u)
        if not ec:
            continue
        org, labels = ec
        if org['k'] != 'binop' or org['rv']['op'] not in ('Eq', 'Ne'):
            continue
        names = [Q.operand_name(b, du, org['rv']['a']), Q.operand_name(b, du, org['rv']['b'])]
        one_field = any(n and n.endswith('.context_index') for n in names)
        one_target = any(n == 'context_index' for n in names)
        if not (one_field and one_target):
            continue
        for tgt, labs in labels.items():
            for lab in labs:
                if (org['rv']['op'] == 'Ne' and lab == ('bool', False)) or (org['rv']['op'] == 'Eq' and lab == ('bool', True)):
                    allowed.add((u, tgt))
    cx.site('%s: volatile arm from bb%d; %d push sites; %d "same context" edges' % (b.fn, start, len(pushes), len(allowed)))
    if not allowed:
        cx.violation(b.fn, 'no-same-context-test', 'the volatile arm never compares the found entry\'s context with the current context', loc=b.loc(lasts[0][1]))
        return
    p = Q.shortest_path_flags(F, b, du, start, set(b.return_blocks()), removed={blk for blk, _ in pushes}, removed_edges=allowed)
    if p is not None:
        cx.violation(b.fn, 'volatile-reuses-foreign-entry', 'a temporary assignment can reuse, in place, a variable that belongs to another context '
                     '(e.g. the enclosing command\'s temporary assignment): the inner value overwrites the outer one and outlives the inner command',
                     loc=b.loc(lasts[0][1]), path=Q.render_path(b, p))


@RS.rule('C16.R6', 'K-TAINT', 'a context number is never used as a position in a per-name variable stack (the stack holds only the contexts that define the name)')
def r6(cx):
    F = cx.F
    SRC = [Q.re.compile(r'^yash_env::variable::VariableSet::index_of_(context|topmost_regular_context)$')]
    STACK_SINKS = [Q.re.compile(r'Index<I>>::index$|IndexMut<I>>::index_mut$|Index<.*>::index$|IndexMut<.*>::index_mut$'),
                   Q.re.compile(r'^alloc::vec::Vec::<T, A>::(drain|truncate|split_off|remove|swap_remove|insert)$'),
                   Q.re.compile(r'^core::slice::<impl \[T\]>::(get|get_mut|split_at|split_at_mut)$')]
    n_src = 0
    for b in F.bodies_in(['yash_env::variable::']):
        srcs = [(blk, t) for blk, t in b.calls() if Q.callee_is(t, SRC)]
        if not srcs:
            continue
        cx.fn(b.fn)
        du = Q.DefUse(b)
        for blk, t in srcs:
            n_src += 1
            cx.site('%s: context number computed at %s' % (b.fn, b.loc(t)))
            tainted = Q.forward_taint(b, {t['dest']['l']}, through_calls=[Q.re.compile(r'core::ops::arith::(Add|Sub)')])
            # ranges built from it
            for sb, j, s in b.stmts():
                if s['k'] == 'assign' and s['rv']['k'] == 'agg' and 'core::ops::range::' in (s['rv'].get('adt') or ''):
                    if any(Q.operand_local(o) in tainted for o in s['rv']['ops'] if Q.operand_local(o) is not None):
                        tainted.add(s['lhs']['l'])
            for sb, st in b.calls():
                if not Q.callee_is(st, STACK_SINKS):
                    continue
                recv_ty = (st.get('at') or [''])[0]
                if 'VariableInContext' not in recv_ty:
                    continue       # indexing `contexts` (Vec<Context>) by a context number is what the number is for
                if any(Q.operand_local(a) in tainted for a in st['a'][1:] if Q.operand_local(a) is not None):
                    cx.violation(b.fn, 'context-number-as-stack-position:%s' % pp.callee(st).split('::')[-1],
                                 'the number of a context is used as a position in the stack of variables that share a name; that stack has '
                                 'an entry only for the contexts defining the name, so the wrong entries are selected (a local variable is not '
                                 'unset) or the index is out of range (panic)', loc=b.loc(st))
    cx.floor(n_src, 2, 'context-number computations in yash_env::variable')


# ---------------------------------------------------------------- added after wave-2 seeded changes
GLOBAL_ASSIGNERS = {
    # function that assigns a shell variable on behalf of the user -> why the target is the visible variable, else a new global
    'yash_semantics::expansion::initial::param::switch::assign': '${x=w} / ${x:=w} assign the shell variable, not a local of the running function',
    "<yash_semantics::expansion::initial::arith::VarEnv<'_, S> as yash_arith::env::Env>::assign_variable": '$((x=1)) assigns the shell variable',
    'yash_semantics::command::compound_command::for_loop::execute': 'the for loop variable is an ordinary shell variable',
    'yash_builtin::read::assigning::assign_one': 'read assigns shell variables',
    'yash_builtin::getopts::report::<impl yash_builtin::getopts::model::Result>::report': 'getopts sets its variable, OPTARG and OPTIND as shell variables',
    'yash_builtin::cd::assign::set_variable': 'cd sets PWD / OLDPWD as shell variables',
}


@RS.rule('C16.R7', 'K-TABLE', 'expansions and built-ins that assign a variable on behalf of the user (${x=w}, $((x=..)), for, read, getopts, cd) '
         'target the visible variable or else a new GLOBAL one: none of them creates a local of the running function')
def r7(cx):
    F = cx.F
    seen = {}
    for b, blk, t in F.callers_of(lambda names, t: any(n.endswith('::get_or_create_variable') or n.endswith('VariableSet::get_or_new') for n in names)):
        if b.root not in GLOBAL_ASSIGNERS:
            continue
        du = Q.DefUse(b)
        o = du.origin(t['a'][2]) if len(t['a']) > 2 else {'k': '?'}
        variant = o['rv'].get('variant') if o['k'] == 'agg' and 'Scope' in (o['rv'].get('adt') or '') else None
        if variant is None and o['k'] == 'const':
            variant = str(o['o'].get('c'))
        seen.setdefault(b.root, []).append((variant, b.loc(t)))
        cx.fn(b.fn)
        cx.site('%s: %s(.., Scope::%s) at %s - %s' % (b.root, pp.callee(t).split('::')[-1], variant, b.loc(t), GLOBAL_ASSIGNERS[b.root]))
        if variant is None or not str(variant).endswith('Global'):
            cx.violation(b.root, 'scope:%s' % (variant or 'computed'), 'the variable is obtained with Scope::%s instead of Scope::Global: inside a '
                         'function the assignment creates (or hits) a local, so the global is left unset after the function returns, and '
                         'an empty read-only global is silently shadowed instead of raising the read-only error (%s)'
                         % (variant or '<computed>', GLOBAL_ASSIGNERS[b.root]), loc=b.loc(t))
    for fn in GLOBAL_ASSIGNERS:
        if fn not in seen:
            cx.require(False, 'reviewed assigner %s no longer calls get_or_create_variable itself (moved? review where the value goes)' % fn)


@RS.rule('C16.R8', 'K-GUARD', 'declaring / assigning in a scope never takes over a variable from below that scope: get_or_new pops a volatile '
         'entry, or reuses an entry in place, only when its context is not below the target context')
def r8(cx):
    F = cx.F
    fn = 'yash_env::variable::VariableSet::get_or_new_impl'
    body = F.inlined(F.body(fn))
    cx.fn(body.fn)
    du = Q.DefUse(body)
    pops = Q.find_calls(body, ['alloc::vec::Vec::<T, A>::pop', 'alloc::vec::Vec::<T, A>::remove', 'alloc::vec::Vec::<T, A>::swap_remove',
                               'alloc::vec::Vec::<T, A>::truncate'])
    cx.require(pops, 'get_or_new_impl no longer removes volatile entries from the per-name stack (anchor moved)')

    def bounded(blk):
        for org, lab, e in Q.implied_conditions(F, body, du, blk):
            if org['k'] != 'binop' or lab[0] != 'bool':
                continue
            op = org['rv']['op']
            a, b = [str(Q.operand_name(body, du, org['rv'][x]) or '') for x in ('a', 'b')]
            if 'context_index' not in a or 'context_index' not in b or a == b:
                continue
            entry_first = a.startswith('var') or '.' in a
            # entry.context_index >= target
            if (entry_first and ((op == 'Lt' and lab[1] is False) or (op == 'Ge' and lab[1] is True))) or \
               (not entry_first and ((op == 'Gt' and lab[1] is False) or (op == 'Le' and lab[1] is True))):
                return True
        return False

    for blk, t in pops:
        ok = bounded(blk)
        cx.site('%s: %s at %s under `entry.context_index >= target context`: %s' % (body.fn, pp.callee(t).split('::')[-1], body.loc(t), ok))
        if not ok:
            cx.violation(fn, 'takes-over-lower-entry', 'an entry of the per-name stack is removed without the test that its context is not '
                         'below the target context: a temporary assignment prefixed to an outer function call (`x=outer foo`) is pulled '
                         'into a nested function that declares `local x` and destroyed at its return - the still running outer function '
                         'then sees x unset', loc=body.loc(t))


# --- explanation addendum (generated catalogue in DESIGN.md reads RS.explanation)
@RS.rule('C16.R9', 'K-GUARD', 'an assignment that fails leaves the variable as it was: the allexport option marks the variable for export '
         'BEFORE the caller assigns to it, so it must not touch a read-only variable (whose assignment is going to fail)')
def r9(cx):
    F = cx.F
    fn = 'yash_env::Env::<S>::get_or_create_variable'
    body = F.inlined(fn)
    cx.fn(fn)
    du = Q.DefUse(body)
    sites = Q.find_calls(body, [re.compile(r"VariableRefMut(::<'_>)?::export$")])
    gets = Q.find_calls(body, ['yash_env::variable::VariableSet::get_or_new'])
    cx.require(gets, 'get_or_create_variable no longer obtains the variable through VariableSet::get_or_new')
    if not sites:
        cx.violation(fn, 'allexport-not-applied', 'get_or_create_variable never exports the variable: the allexport option has no effect')
    for blk, t in sites:
        ok = _not_read_only_edge(F, body, du, blk)
        allexp = any(org['k'] == 'call' and lab == ('bool', True) for org, lab, e in Q.implied_conditions(F, body, du, blk))
        cx.site('get_or_create_variable: export at %s: on the not-read-only edge: %s; under an option test: %s' % (body.loc(t), ok, allexp))
        if not ok:
            cx.violation(fn, 'export-before-failing-assignment', 'with allexport on, the variable is exported before the caller assigns to it, '
                         'also when it is read-only: `readonly ro=1; set -a; command readonly ro=2` fails to assign but leaves ro exported '
                         '(a failed assignment changed the variable)', loc=body.loc(t))


# ---------------------------------------------------------------- added after wave-3 seeded changes
SETVARS = 'yash_builtin::typeset::SetVariables'
SETVARS_EXEC = 'yash_builtin::typeset::set_variables::<impl yash_builtin::typeset::SetVariables>::execute'
SCOPE_FROM = 'yash_builtin::typeset::set_variables::<impl core::convert::From<yash_builtin::typeset::Scope> for yash_env::variable::Scope>::from'
DECLARERS = [re.compile(r'^yash_env::Env::<S>::get_or_create_variable$'), VSET + '::get_or_new']
EXEC_ERROR = 'yash_builtin::typeset::ExecuteError'


@RS.rule('C16.R10', 'K-PASS', 'typeset / local / export / readonly declare EVERY variable operand in the requested scope: in SetVariables::execute an '
         'operand reaches get_or_create_variable(name, self.scope.into()) or is reported as an error - no test of visibility, value or '
         'attributes lets an operand skip its declaration')
def r10(cx):
    F = cx.F
    body = F.inlined(SETVARS_EXEC)
    cx.fn(SETVARS_EXEC)
    du = Q.DefUse(body)
    # the loop over the operands: Iterator::next on an iterator made from `self.variables`
    loops = []
    for blk, t in Q.find_calls(body, [re.compile(r'Iterator>?::next$')]):
        src = Q.value_source(body, du, t['a'][0])
        hops = 0
        while src is not None and hops < 4 and not Q.callee_is(src, [re.compile(r'IntoIterator>?::into_iter$'),
                                                                      re.compile(r'(Vec::<T, A>|slice::<impl \[T\]>)::(iter|iter_mut|drain)$')]):
            src = Q.value_source(body, du, src['a'][0]) if src.get('a') else None      # adapters (enumerate, by_ref, ..)
            hops += 1
        if src is None or not src.get('a'):
            continue
        coll = _trace_place(du, src['a'][0])
        if coll is not None and _projects(coll, SETVARS, 'variables'):
            loops.append((blk, t))
    cx.require(len(loops) == 1, 'SetVariables::execute: the loop `for field in self.variables` (Iterator::next on an iterator of '
               'self.variables) was not found exactly once (found %d)' % len(loops))
    nb, nt = loops[0]
    item = nt['dest']['l']
    starts, none_edges = set(), set()
    for u in body.live_blocks():
        ec = Q.edge_condition(F, body, du, u)
        if not ec or ec[0]['k'] != 'discr' or ec[0]['pl'].get('p') or ec[0]['pl']['l'] != item:
            continue
        for tgt, labs in ec[1].items():
            if ('variant', 'Some') in labs:
                starts.add(tgt)
            if ('variant', 'None') in labs and ('variant', 'Some') not in labs:
                none_edges.add((u, tgt))
    cx.require(starts, 'SetVariables::execute: the `Some(field)` edge of the operand loop was not found')
    declares = Q.find_calls(body, DECLARERS)
    errs = {b for b, j, s in Q.find_aggregates(body, EXEC_ERROR)}
    cx.site('%s: operand loop at %s; %d declaring call(s); %d error-report site(s)' % (body.fn, body.loc(nt), len(declares), len(errs)))
    if not declares:
        cx.violation(SETVARS_EXEC, 'operand-never-declared', 'SetVariables::execute no longer calls get_or_create_variable / get_or_new: '
                     '`typeset x` / `local x` / `export x` declare nothing', loc=body.loc(nt))
        return
    through = {b for b, t in declares} | errs
    goals = {nb} | set(body.return_blocks())
    for s in sorted(starts):
        p = Q.shortest_path_flags(F, body, du, s, goals, removed=through, removed_edges=none_edges)
        if p is not None:
            cx.violation(SETVARS_EXEC, 'operand-skips-declaration', 'an operand of typeset / local / export / readonly can finish its loop '
                         'iteration without being declared (get_or_create_variable in the requested scope) and without an error being '
                         'reported: e.g. a bare `typeset x` in a function that is skipped because an outer x is visible creates no local, '
                         'so a later `x=..` in the function overwrites the caller\'s / global x and survives the return',
                         loc=body.loc(body.term(p[-2] if len(p) > 1 else p[0])), path=Q.render_path(body, p))
            break
    # the scope given to the declaring call is the requested one: self.scope converted by From<typeset::Scope>
    for b, t in declares:
        ok = False
        o = du.origin(t['a'][2]) if len(t['a']) > 2 else {'k': '?'}
        src = o['t'] if o['k'] == 'call' else None
        if src is not None and Q.callee_is(src, [re.compile(r'convert::Into(<U>)?>?::into$'), re.compile(r'convert::From(<T>)?>?::from$'), SCOPE_FROM]):
            pl = _trace_place(du, src['a'][0])
            ok = pl is not None and _projects(pl, SETVARS, 'scope')
        cx.site('%s: %s at %s; scope argument is self.scope.into(): %s' % (body.fn, pp.callee(t).split('::')[-1], body.loc(t), ok))
        if not ok:
            cx.violation(SETVARS_EXEC, 'scope-not-requested', 'the variable is not declared in the scope requested on the command line '
                         '(self.scope converted to variable::Scope): `typeset x` in a function would not make a local, or `typeset -g x` '
                         'would not reach the global', loc=body.loc(t))
    # ... and the conversion keeps the variant
    fb = F.body(SCOPE_FROM)
    cx.fn(fb.fn)
    fdu = Q.DefUse(fb)
    got = {}
    for b, j, s in Q.find_aggregates(fb, V + 'Scope'):
        frm = {lab[1] for org, lab, e in Q.dominating_conditions(F, fb, fdu, b) if org['k'] == 'discr' and lab[0] == 'variant'}
        got.setdefault(s['rv']['variant'], set()).update(frm or {'<unconditional>'})
    cx.site('From<typeset::Scope> for variable::Scope: %s' % {k: sorted(v) for k, v in sorted(got.items())})
    cx.cellcount(2)
    if got != {'Local': {'Local'}, 'Global': {'Global'}}:
        cx.violation(SCOPE_FROM, 'scope-table', 'typeset::Scope::Local must convert to variable::Scope::Local and Global to Global '
                     '(found %s): `typeset x` in a function changes the global / `typeset -g x` makes a local'
                     % {k: sorted(v) for k, v in sorted(got.items())}, loc='%s:%s' % (fb.file, fb.line))


RS.explanation += ' Added later: ${x=w}, $((x=..)), for, read, getopts and cd assign with Scope::Global (R7); get_or_new never takes over an entry from below the target context (R8). With allexport, a read-only variable (whose assignment will fail) is not exported (R9).'
RS.explanation += ' In SetVariables::execute (typeset / local / export / readonly) every operand is declared with get_or_create_variable(name, self.scope.into()) or reported as an ExecuteError: no path of the operand loop skips the declaration (R10).'


# ---------------------------------------------------------------------------------------
# added after the independent report C16w3 #3 (fix 18bb883: LINENO kept its special meaning after an assignment)
@RS.rule('C16.R11', 'K-PASS', 'reading a variable returns what was assigned: a successful assignment removes the LineNumber quirk (documented on '
         'Quirk::LineNumber: "lost when an assignment sets a new value") - on the path of assign_impl that stores the value the quirk '
         'field is looked at and cleared, so `LINENO=55; echo $LINENO` prints 55')
def r11(cx):
    F = cx.F
    # private helpers of the module called by assign_impl (e.g. the success path extracted into `fn overwrite`) are seen in place
    body = F.inlined(F.body(ASSIGN_IMPL))
    cx.fn(body.fn)
    stores = [(blk, t) for blk, t in body.calls() if pp.callee(t) == 'core::option::Option::<T>::replace']
    cx.require(stores, 'assign_impl no longer stores the value with Option::replace (anchor moved)')
    clears = [w for w in Q.field_writes(body, VAR, 'quirk') if w[3] == 'assign']
    cx.site('assign_impl: value stored x%d; quirk written x%d' % (len(stores), len(clears)))
    if not clears:
        cx.violation(ASSIGN_IMPL, 'quirk-survives-assignment', 'an assignment never touches the quirk of the variable: LINENO keeps expanding to '
                     'the line number after `LINENO=55` (the assigned value is stored but never seen), although the documentation of '
                     'Quirk::LineNumber says the quirk is lost when a value is assigned', loc=body.loc(stores[0][1]))
        return
    # the clearing must be reachable from the store (same success path), and must not sit on the read-only error path
    ok = any(w[0] in body.reachable(sb) or sb in body.reachable(w[0]) for w in clears for sb, st in stores)
    if not ok:
        cx.violation(ASSIGN_IMPL, 'quirk-not-cleared-on-success-path', 'the quirk is written, but not on the path that stores the assigned value',
                     loc=body.loc(clears[0][2]))


RS.explanation += ' A successful assignment removes the LineNumber quirk (R11).'


# ---------------------------------------------------------------------------------------
# added after the fix commits 1860a4a, 6f410ec, 4fe2991, f728452 (rules R12-R15)
import facts as _facts
GOCV = 'yash_env::Env::<S>::get_or_create_variable'
VREF_ASSIGN = [re.compile(r"^yash_env::variable::main::VariableRefMut(::<'_>)?::assign$")]
VREF_METHOD = re.compile(r"^yash_env::variable::main::VariableRefMut(::<'_>)?::|^<yash_env::variable::main::VariableRefMut<'_> as ")
OPT_IS = {'core::option::Option::<T>::is_some': 'Some', 'core::option::Option::<T>::is_none': 'None'}


def _modifies(body, blk, local):
    """Block `blk` may change which variant the enum in `local` holds: a write to it (or into it), a `&mut` borrow of it, a move
    of the whole of it (moving a field out - `Some(v) => v` - leaves the variant as it is)."""
    def whole_move(o):
        return isinstance(o, dict) and 'mv' in o and o['mv']['l'] == local and not o['mv'].get('p')
    for s in body.blocks[blk]['s']:
        if s.get('k') in ('assign', 'setdiscr') and s['lhs']['l'] == local:
            return True
        rv = s.get('rv')
        if not rv:
            continue
        if rv.get('k') == 'ref' and rv.get('mut') and rv['pl']['l'] == local:
            return True
        if any(whole_move(o) for o in Q.rvalue_operands(rv)):
            return True
    t = body.term(blk)
    return t['k'] == 'call' and (t['dest']['l'] == local or any(whole_move(a) for a in t['a']))


def _option_fact(du, org, lab):
    """(local, variant, block of the test) when a tested condition says which variant a plain Option local holds:
    `x.is_some()` / `x.is_none()` (possibly negated) or a discriminant test of x."""
    org, lab = Q.peel_not(du, org, lab)
    if org.get('k') == 'call' and lab and lab[0] == 'bool' and pp.callee(org['t']) in OPT_IS and org['t']['a']:
        pl = _trace_place(du, org['t']['a'][0])
        if pl is not None and not pl.get('p'):
            v = OPT_IS[pp.callee(org['t'])]
            if not lab[1]:
                v = 'None' if v == 'Some' else 'Some'
            return pl['l'], v, org.get('b')
    if org.get('k') == 'discr' and lab and lab[0] == 'variant' and lab[1] in ('Some', 'None'):
        pl = du.deref_origin(org['pl'])                      # `match &x` tests discriminant(*_r) with _r = &x
        if not pl.get('p'):
            return pl['l'], lab[1], org.get('b')
    return None


def _option_facts_at(F, body, du, c):
    """{local: variant} that holds whenever block c is entered: taken from the conditions that dominate c, kept only when no block
    on a way from the test to c can change the local."""
    known, contradicted = {}, set()
    for org, lab, e in Q.implied_conditions(F, body, du, c):
        f = _option_fact(du, org, lab)
        if f is None or f[2] is None:
            continue
        l, v, tb = f
        after = set()
        for s in body.succ(tb):
            after |= body.reachable(s, removed={tb})
        between = {d for d in after if c in body.reachable(d, removed={tb})}          # c itself included: its statements precede the call
        if any(_modifies(body, d, l) for d in between):
            continue
        if known.get(l, v) != v:
            contradicted.add(l)
        known[l] = v
    return {l: v for l, v in known.items() if l not in contradicted}


def _path_knowing(F, body, du, start, goals, removed, known0):
    """Shortest path start -> goals avoiding `removed`, that never takes a switch edge contradicting what is known about Option
    locals (known0 at `start`; knowledge about a local is dropped after a block that may change it). None if there is none."""
    from collections import deque
    goals, removed = set(goals), set(removed)
    st0 = (start, tuple(sorted(known0.items())))
    prev = {st0: None}
    q = deque([st0])
    while q:
        b, kn = q.popleft()
        if b in goals:
            path, cur = [], (b, kn)
            while cur is not None:
                path.append(cur[0])
                cur = prev[cur]
            return path[::-1]
        known = {l: v for l, v in kn if not _modifies(body, b, l)}
        only = None
        ec = Q.edge_condition(F, body, du, b) if known else None
        if ec:
            org, labels = ec
            ok = set()
            decided = False
            for tgt, labs in labels.items():
                for lab in labs:
                    f = _option_fact(du, org, lab)
                    if f is not None and f[0] in known:
                        decided = True
                        if known[f[0]] == f[1]:
                            ok.add(tgt)
            if decided and ok:
                only = ok
        for s in body.succ(b):
            if s in removed or (only is not None and s not in only):
                continue
            st = (s, tuple(sorted(known.items())))
            if st in prev:
                continue
            prev[st] = (b, kn)
            q.append(st)
    return None


@RS.rule('C16.R12', 'K-PASS', 'the allexport option exports a variable only where a value is assigned to it: every use of '
         'Env::get_or_create_variable (the accessor that applies allexport) is followed, on every feasible path, by VariableRefMut::assign '
         'on the variable it returned - an operand / code path that assigns nothing obtains the variable without the option')
def r12(cx):
    F = cx.F
    direct = F.callers_of(lambda names, t: GOCV in names)
    cx.require(direct, 'Env::get_or_create_variable has no caller (renamed? the allexport accessor moved)')
    # a function that hands the variable on to its caller (returns the VariableRefMut) is analysed in place at its call sites
    wrappers = set()
    for b, blk, t in direct:
        if 'VariableRefMut' in str((F.fns.get(b.fn) or {}).get('output') or ''):
            wrappers.add(b.fn)
    work = {}
    for b, blk, t in direct + (F.callers_of(lambda names, t: any(n in wrappers for n in names)) if wrappers else []):
        if b.fn not in wrappers:
            work[b.fn] = b
    n_sites = 0
    for fn in sorted(work):
        b0 = work[fn]
        own = _facts.same_module_private(F, b0.root)
        body = F.inlined(b0, lambda callee, own=own: callee in wrappers or own(callee))
        cx.fn(fn)
        du = Q.DefUse(body)
        left = Q.find_calls(body, sorted(wrappers)) if wrappers else []
        cx.require(not left, '%s: the wrapper %s of get_or_create_variable could not be analysed in place' % (fn, [pp.callee(t) for _, t in left]))
        for c, t in Q.find_calls(body, [GOCV]):
            n_sites += 1
            dest = t['dest']['l']
            mine = Q.forward_taint(body, {dest}, through_calls=[])
            assigns = {blk for blk, at in Q.find_calls(body, VREF_ASSIGN) if at['a'] and Q.operand_local(at['a'][0]) in mine}
            known = _option_facts_at(F, body, du, c)
            p = None
            if t.get('to') is not None and t['to'] not in assigns:
                p = _path_knowing(F, body, du, t['to'], set(body.return_blocks()) | {c}, assigns, known)
            shown = {body.local_name(l): v for l, v in sorted(known.items())}
            cx.site('%s: get_or_create_variable at %s; known there: %s; assign sites on the returned variable: %d; every feasible path assigns: %s'
                    % (fn, body.loc(t), shown or '-', len(assigns), p is None))
            if p is None:
                continue
            handed = [pp.callee(ot) for ob, ot in body.calls() if ob in p and ob != c and not VREF_METHOD.search(pp.callee(ot) or '')
                      and not Q.callee_is(ot, [re.compile(r'Deref(Mut)?>?::deref(_mut)?$')])
                      and any(Q.operand_local(a) in mine for a in ot['a'] if Q.operand_local(a) is not None)]
            cx.require(not handed, '%s: the variable obtained with get_or_create_variable is handed to %s before any assignment is seen; '
                       'review whether that function assigns' % (fn, handed))
            cx.violation(b0.root, 'allexport-without-assignment', 'a variable is obtained with Env::get_or_create_variable (which exports it '
                         'when the allexport option is on) on a path that never assigns to it: with `x=1; set -a; readonly x` (an operand '
                         'without a value) x is exported although nothing was assigned; the option applies only to variables that are '
                         'assigned to', loc=body.loc(t), path=Q.render_path(body, p))
    cx.floor(n_sites, 9, 'uses of get_or_create_variable (10 counted by hand: cd, getopts x3, read, typeset, simple-command assignment, for, ${x=w}, $((x=..)))')


# ------------------------------------------------------------------ R13 (fix 6f410ec)
VIEW_CALLS = [re.compile(r'Deref(Mut)?>?::deref(_mut)?$'), re.compile(r'(AsRef|Borrow)(<.*>)?>?::(as_ref|borrow)$'),
              re.compile(r'^alloc::string::String::(as_str|as_mut_str)$'), re.compile(r'Clone>?::clone$')]


def _trace_view(du, operand, depth=8):
    """_trace_place, continued through calls that only give another view of the same value (deref, as_str, as_ref, borrow, clone)."""
    o = operand
    pl = None
    for _ in range(depth):
        pl = _trace_place(du, o)
        if pl is None:
            return None
        d = du.single_def(pl['l'])
        if d is not None and d[1] == 't' and d[2].get('a') and Q.callee_is(d[2], VIEW_CALLS) and all(e == '*' for e in pl.get('p') or []):
            o = d[2]['a'][0]
            continue
        return pl
    return pl


def _const_text(o):
    return str(o.get('c')) if isinstance(o, dict) and 'c' in o and 'cp' not in o and 'mv' not in o else None


@RS.rule('C16.R13', 'K-GUARD', 'every string env_c_strings() emits is a well-formed `name=value` entry: a C string is built only where the '
         'name of the variable (the key of all_variables) has been tested to be non-empty and to contain no `=` (both documented on '
         'env_c_strings)')
def r13(cx):
    F = cx.F
    cb = F.inlined(F.body(ECS + '::{closure#0}'))
    cx.fn(cb.fn)
    du = Q.DefUse(cb)
    cx.require(cb.argc >= 2 and str(cb.locals[2].get('ty', '')).startswith('(&alloc::string::String,'),
               'the closure of env_c_strings no longer takes the (name, variables) entry of all_variables as its argument')

    def is_name(o):
        pl = _trace_view(du, o)
        pr = (pl or {}).get('p') or []
        return pl is not None and pl['l'] == 2 and bool(pr) and isinstance(pr[0], dict) and str(pr[0].get('f')) == '0'

    def name_test(org, lab):
        """'nonempty' | 'no-equals' | 'other' (a test of the name this rule does not understand) | None (not about the name)"""
        org, lab = Q.peel_not(du, org, lab)
        if lab[0] != 'bool':
            if org.get('k') == 'discr':
                src = Q.value_source(cb, du, {'cp': {'l': org['pl']['l']}})
                if src is not None and any(is_name(a) for a in src['a']):
                    if Q.callee_is(src, [re.compile(r'^core::str::<impl str>::(find|rfind|split_once|rsplit_once)$')]) and \
                            _const_text(src['a'][1]) in ("'='", '"="') and lab == ('variant', 'None'):
                        return 'no-equals'
                    return 'other'
            return None
        if org.get('k') == 'call':
            t = org['t']
            if not any(is_name(a) for a in t['a']):
                return None
            callee = pp.callee(t) or ''
            if re.search(r'^(alloc::string::String|core::str::<impl str>)::is_empty$', callee):
                return 'nonempty' if lab[1] is False else 'other'
            if re.search(r'^core::str::<impl str>::contains$', callee) and _const_text(t['a'][1]) in ("'='", '"="'):
                return 'no-equals' if lab[1] is False else 'other'
            if re.search(r'PartialEq(<.*>)?>?::(eq|ne)$', callee) and any(_const_text(a) == '""' for a in t['a']):
                return 'nonempty' if lab[1] is callee.endswith('::ne') else 'other'
            return 'other'
        if org.get('k') == 'binop':
            rv = org['rv']
            srcs = [du.origin(rv[x]) for x in ('a', 'b')]
            lens = [i for i, s in enumerate(srcs) if s['k'] == 'call' and re.search(r'^(alloc::string::String|core::str::<impl str>)::len$', pp.callee(s['t']) or '')
                    and any(is_name(a) for a in s['t']['a'])]
            if not lens:
                return None
            other = srcs[1 - lens[0]]
            n = _const_text(other['o']) if other['k'] == 'const' else None
            n = re.sub(r'_?usize$', '', n) if n is not None else None
            op, v = rv['op'], lab[1]
            if lens[0] == 1:                                    # constant on the left: mirror the comparison
                op = {'Lt': 'Gt', 'Gt': 'Lt', 'Le': 'Ge', 'Ge': 'Le'}.get(op, op)
            if n == '0' and ((op, v) in (('Eq', False), ('Ne', True), ('Gt', True), ('Le', False))):
                return 'nonempty'
            if n == '1' and ((op, v) in (('Ge', True), ('Lt', False))):
                return 'nonempty'
            return 'other'
        return None

    makers = Q.find_calls(cb, [re.compile(r'^alloc::ffi::c_str::CString::new$'), re.compile(r'CString::(new|from_vec_unchecked|from_vec_with_nul)')])
    cx.require(makers, 'env_c_strings no longer builds CStrings in its closure')
    seeds = {s_['lhs']['l'] for _, _, s_ in cb.stmts() if s_['k'] == 'assign' and
             any(pl_['l'] == 2 and (pl_.get('p') or [None])[0] and isinstance(pl_['p'][0], dict) and str(pl_['p'][0].get('f')) == '0'
                 for pl_ in Q.rvalue_places(s_['rv']))}
    # what is computed from the name by calls that return something about it (not the string under construction, which starts as a clone)
    from_name = Q.forward_taint(cb, seeds, stop_calls=[re.compile(r'Clone>?::clone$'), re.compile(r'ToOwned>?::to_owned$'),
                                                         re.compile(r'ToString>?::to_string$')])
    for b, t in makers:
        got = {}
        for org, lab, e in Q.implied_conditions(F, cb, du, b):
            k = name_test(org, lab)
            if k:
                got.setdefault(k, []).append(cb.loc(org['t']) if org.get('k') == 'call' else 'bb%d' % e[0])
        if 'nonempty' not in got or 'no-equals' not in got:
            # a test of the name need not be a single dominating edge (or-patterns): a switch on something computed from the name
            # that decides whether the string is built is a test this rule does not understand
            for u in sorted(cb.live_blocks()):
                ec = Q.edge_condition(F, cb, du, u)
                if not ec or u == b or any(name_test(ec[0], lab_) in ('nonempty', 'no-equals')
                                            for lab_ in (('bool', True), ('bool', False), ('variant', 'None'))):
                    continue                                # an understood test, on an edge that does not dominate: not a guard
                o_ = ec[0]
                ops = [Q.operand_local(a) for a in o_['t']['a']] if o_.get('k') == 'call' else [o_['pl']['l']] if o_.get('pl') else \
                    [Q.operand_local(x) for x in Q.rvalue_operands(o_['rv'])] if o_.get('rv') else []
                if any(l in from_name for l in ops if l is not None):
                    reach = [s_ == b or b in cb.reachable(s_, removed={u}) for s_ in cb.succ(u)]
                    if any(reach) and not all(reach):
                        got.setdefault('other', []).append('bb%d' % u)
        cx.site('%s: CString::new at %s; name tested non-empty: %s; name tested free of `=`: %s; other tests of the name: %d'
                % (cb.fn, cb.loc(t), 'nonempty' in got, 'no-equals' in got, len(got.get('other', []))))
        for want, desc, msg in (
                ('nonempty', 'empty-name-in-environment',
                 'an environment string is built for a variable whose name may be empty: after `export =a=b` (which creates a variable '
                 'with an empty name) utilities are given the malformed entry `=a=b`'),
                ('no-equals', 'equals-sign-in-name-in-environment',
                 'an environment string is built for a variable whose name may contain `=`: the entry `a=b=c` is read by the utility as '
                 'the variable a with the value b=c')):
            if want in got:
                continue
            cx.require('other' not in got, '%s: the name is tested in a way this rule does not understand (%s); cannot tell whether the '
                       '%s test is there' % (cb.fn, got.get('other'), want))
            cx.violation(ECS, desc, msg, loc=cb.loc(t))


# ------------------------------------------------------------------ R14 (fix 4fe2991)
import hirq as H
VSET_INIT = VSET + '::init'
VSET_GET_OR_NEW = VSET + '::get_or_new'
VSET_LOOKUPS = [VSET + '::get', VSET_GET_OR_NEW]
# variables that start-up resets whatever the environment says (doc comment of VariableSet::init: "IFS and OPTIND are always assigned")
ALWAYS_INITIALISED = {
    'IFS': 'POSIX: the shell sets IFS to <space><tab><newline> when it is invoked (a value imported from the environment is ignored)',
    'OPTIND': 'POSIX: OPTIND is initialised to 1 when the shell is invoked',
}


def _const_str(F, v, depth=4):
    """String value of a const_eval result: a literal, or a named const whose initialiser is a string literal."""
    if isinstance(v, str):
        return v
    if depth and isinstance(v, tuple) and len(v) == 2 and v[0] == 'path' and v[1] in F.hir:
        return _const_str(F, H.const_eval(F.hir[v[1]]['body']), depth - 1)
    return None


def _names_denoted(F, body, du, operand):
    """The variable names (strings) a name operand can denote in `init`: a string / named constant, or one column of a constant
    table that is being iterated (`for &(name, value) in TABLE`). None when not understood."""
    def of_const(c):
        if c.get('cdef'):
            s = _const_str(F, ('path', c['cdef']))
            return [s] if s is not None else None
        txt = _const_text(c)
        return [txt[1:-1]] if txt and len(txt) >= 2 and txt[0] == '"' == txt[-1] else None
    o = du.origin(operand)
    if o['k'] == 'const':
        return of_const(o['o'])
    pl = _trace_view(du, operand)
    if pl is None:
        return None
    if all(e == '*' for e in pl.get('p') or []):             # `&*C` with `_c = const C`
        o = du.origin({'cp': {'l': pl['l']}})
        if o['k'] == 'const':
            return of_const(o['o'])
    d = du.single_def(pl['l'])
    if d is None or d[1] != 't' or not Q.callee_is(d[2], [re.compile(r'Iterator>?::next$')]):
        return None
    src = Q.value_source(body, du, d[2]['a'][0])
    hops = 0
    while src is not None and hops < 4 and not Q.callee_is(src, [re.compile(r'IntoIterator>?::into_iter$'),
                                                                  re.compile(r'(Vec::<T, A>|slice::<impl \[T\]>)::iter$')]):
        src = Q.value_source(body, du, src['a'][0]) if src.get('a') else None
        hops += 1
    if src is None or not src.get('a'):
        return None
    table = du.origin(src['a'][0])
    if table['k'] != 'const' or not table['o'].get('cdef') or table['o']['cdef'] not in F.hir:
        return None
    rows = H.const_eval(F.hir[table['o']['cdef']]['body'])
    if not isinstance(rows, list):
        return None
    col = [int(e['f']) for e in pl.get('p') or [] if isinstance(e, dict) and 'f' in e and not e.get('adt') and str(e['f']).isdigit()]
    out = []
    for r in rows:
        for c in col:
            r = r[c] if isinstance(r, tuple) and c < len(r) else None
        s = _const_str(F, r)
        if s is None:
            return None
        out.append(s)
    return out


@RS.rule('C16.R14', 'K-GUARD', 'start-up does not overwrite what the environment provided: VariableSet::init (which runs after the '
         'environment has been imported) assigns a default only to a variable that has no value, except the documented always-initialised '
         'variables IFS and OPTIND - which it does assign unconditionally')
def r14(cx):
    F = cx.F
    # start-up order (yash-cli): extend_env (import) precedes configure_environment -> Env::init_variables -> VariableSet::init
    RUN = 'yash_cli::run_as_shell_process'
    rb = F.main_body(RUN)
    cx.fn(rb.fn)
    imports = Q.find_calls(rb, [VSET + '::extend_env'])
    confs = Q.find_calls(rb, ['yash_cli::startup::configure_environment'])
    cx.require(imports and confs, 'run_as_shell_process no longer imports the environment (extend_env) and then calls configure_environment')
    ordered = all(any(rb.dominates(ib, cb_) and ib != cb_ for ib, _ in imports) for cb_, _ in confs)
    via = [b.root for b, blk, t in F.callers_of(lambda names, t: VSET_INIT in names)]
    via2 = [b.root for b, blk, t in F.callers_of(lambda names, t: any(n in via for n in names))]
    cx.site('start-up order: extend_env at %s dominates configure_environment at %s: %s; VariableSet::init is called by %s, called by %s'
            % (rb.loc(imports[0][1]), rb.loc(confs[0][1]), ordered, sorted(set(via)), sorted(set(via2))))
    cx.require(ordered and 'yash_cli::startup::configure_environment' in via2,
               'the start-up order changed (environment import no longer precedes configure_environment -> init_variables -> init): '
               'review whether init may still overwrite imported variables')

    body = F.inlined(F.main_body(VSET_INIT))
    cx.fn(body.fn)
    du = Q.DefUse(body)

    def var_source(operand):
        """the get / get_or_new call a Variable / VariableRefMut operand comes from (through views, moves, `?`)"""
        o = operand
        for _ in range(6):
            pl = _trace_view(du, o)
            if pl is None:
                return None
            src = Q.value_source(body, du, {'cp': {'l': pl['l']}})
            if src is None:
                return None
            if Q.callee_is(src, VSET_LOOKUPS):
                return src
            if Q.callee_is(src, VIEW_CALLS + [re.compile(r'^core::option::Option::<T>::(as_ref|as_deref|unwrap|expect)$')]) and src.get('a'):
                o = src['a'][0]
                continue
            return None
        return None

    def names_of(call):
        return _names_denoted(F, body, du, call['a'][1]) if len(call['a']) > 1 else None

    def closure_tests_value(operand, want):
        """the closure passed tests `var.value.<want>()` and returns the result"""
        o = du.origin(operand)
        cdef = o['rv'].get('def') if o['k'] == 'agg' and o['rv'].get('ak') == 'closure' else None
        c = F.bodies.get(cdef) if cdef else None
        if c is None:
            return False
        cdu = Q.DefUse(c)
        calls = [(b, t) for b, t in c.calls() if not Q.callee_is(t, VIEW_CALLS)]
        if len(calls) != 1 or pp.callee(calls[0][1]) != 'core::option::Option::<T>::' + want or calls[0][1]['dest']['l'] != 0:
            return False
        pl = _trace_place(cdu, calls[0][1]['a'][0])
        return pl is not None and _projects(pl, VAR, 'value')

    def guard(org, lab, names, related):
        """'no-value' (the edge is taken only when the variable has no value) | 'other' (a test of something computed from a lookup
        of the same variable, not understood) | None (unrelated)"""
        k = understood(org, lab, names)
        if k:
            return k
        return 'other' if is_related(org, lab, related) else None

    def is_related(org, lab, related):
        org, lab = Q.peel_not(du, org, lab)
        ops = []
        if org.get('k') == 'call':
            ops = [Q.operand_local(a) for a in org['t']['a']]
        elif org.get('k') in ('discr', 'place', 'ref'):
            ops = [org['pl']['l']]
        elif org.get('k') in ('binop', 'unop', 'cast'):
            ops = [Q.operand_local(o) for o in Q.rvalue_operands(org['rv'])]
        return any(l is not None and l in related for l in ops)

    def understood(org, lab, names):
        org, lab = Q.peel_not(du, org, lab)
        if org.get('k') == 'call':
            t = org['t']
            callee = pp.callee(t) or ''
            if not t['a']:
                return None
            pl = _trace_view(du, t['a'][0])
            if pl is not None and _projects(pl, VAR, 'value'):                       # var.value.is_none() / is_some()
                src = var_source({'cp': {'l': pl['l']}})
                if src is None or names_of(src) != names:
                    return None
                if callee in OPT_IS and lab[0] == 'bool':
                    return 'no-value' if (OPT_IS[callee] == 'None') is lab[1] else 'other'
                return 'other'
            src = var_source(t['a'][0])
            if src is None or names_of(src) != names:
                return None
            if lab[0] == 'bool' and pp.callee(src) == VSET + '::get':
                if callee == 'core::option::Option::<T>::is_none':                  # no such variable at all
                    return 'no-value' if lab[1] else 'other'
                if callee == 'core::option::Option::<T>::is_none_or' and len(t['a']) > 1:
                    return 'no-value' if lab[1] and closure_tests_value(t['a'][1], 'is_none') else 'other'
                if callee == 'core::option::Option::<T>::is_some_and' and len(t['a']) > 1:
                    return 'no-value' if not lab[1] and closure_tests_value(t['a'][1], 'is_some') else 'other'
            return 'other'
        if org.get('k') == 'discr':
            pl = du.deref_origin(org['pl'])
            o2 = du.origin({'cp': {'l': pl['l']}}) if not pl.get('p') else {'k': 'place', 'pl': pl}
            if o2['k'] == 'call' and Q.callee_is(o2['t'], [re.compile(r'Clone>?::clone$'), 'core::option::Option::<T>::as_ref',
                                                           'core::option::Option::<T>::as_deref']) and o2['t']['a']:
                pl = _trace_view(du, o2['t']['a'][0])
            elif o2['k'] in ('place', 'ref'):
                pl = _trace_view(du, {'cp': o2['pl']}) or o2['pl']
            if pl is not None and _projects(pl, VAR, 'value'):
                src = var_source({'cp': {'l': pl['l']}})
                if src is not None and names_of(src) == names:
                    return 'no-value' if lab == ('variant', 'None') else 'other'
                return None
            src = var_source({'cp': {'l': org['pl']['l']}})
            if src is not None and names_of(src) == names:
                return 'other'
        return None

    assigns = Q.find_calls(body, VREF_ASSIGN)
    cx.require(assigns, 'VariableSet::init no longer assigns defaults with VariableRefMut::assign (anchor moved)')
    unconditional = set()
    for b, t in assigns:
        src = var_source(t['a'][0])
        cx.require(src is not None and pp.callee(src) == VSET_GET_OR_NEW, 'init: the variable assigned at %s is not obtained with '
                   'get_or_new in a way this rule understands' % body.loc(t))
        names = names_of(src)
        cx.require(names, 'init: cannot tell which variables the assignment at %s targets (neither a constant name nor a column of '
                   'a constant table)' % body.loc(t))
        got = {}
        related = Q.forward_taint(body, {lt['dest']['l'] for lb, lt in Q.find_calls(body, VSET_LOOKUPS) if names_of(lt) == names})
        for org, lab, e in Q.implied_conditions(F, body, du, b):
            k = guard(org, lab, names, related)
            if k:
                got.setdefault(k, []).append(e)
        guarded = 'no-value' in got
        if not guarded:
            # no single edge need dominate the assignment (`if let Some(true) | None = lookup.map(..)`): a switch on something computed
            # from a lookup of the same variable that decides whether the assignment is reached is a test this rule does not understand
            for u in sorted(body.live_blocks()):
                ec = Q.edge_condition(F, body, du, u)
                if ec and u != b and is_related(ec[0], ('else',), related):
                    reach = [s_ == b or b in body.reachable(s_, removed={u}) for s_ in body.succ(u)]
                    if any(reach) and not all(reach):
                        got.setdefault('other', []).append((u, u))
        cx.site('init: assign at %s targets %s; only when the variable has no value: %s%s'
                % (body.loc(t), names, guarded, '' if guarded or 'other' not in got else ' (tested in a way not understood)'))
        for n in names:
            cx.cellcount(1)
            if guarded:
                continue
            if n in ALWAYS_INITIALISED:
                unconditional.add(n)
                continue
            cx.require('other' not in got, 'init: the assignment of %s at %s is behind a test of the variable that this rule does not '
                       'understand' % (n, body.loc(t)))
            cx.violation(VSET_INIT, 'overwrites-imported:%s' % n, 'VariableSet::init assigns the default value of %s without testing that the '
                         'variable has no value; init runs after the environment has been imported, so `%s=\'my> \' yash ...` starts with the '
                         'default instead (PS4: `PS4=\'my> \' yash -xc \': x\'` traces with `+ `) and the overwritten value is what utilities '
                         'inherit. Only %s are documented as always initialised' % (n, n, ' and '.join(sorted(ALWAYS_INITIALISED))),
                         loc=body.loc(t))
    for n in sorted(ALWAYS_INITIALISED):
        if n not in unconditional:
            cx.violation(VSET_INIT, 'not-always-initialised:%s' % n, 'VariableSet::init does not assign %s unconditionally: a value imported '
                         'from the environment survives start-up (%s)' % (n, ALWAYS_INITIALISED[n]))


# ------------------------------------------------------------------ R15 (fix f728452)
STD_ENV_ITERS = re.compile(r'^std::env::(vars|vars_os|args|args_os)$')
ITER_ADAPTERS = [re.compile(r'Iterator>?::(filter|filter_map|map|inspect|chain|take_while|skip_while|map_while|flat_map|fuse|peekable)$'),
                 re.compile(r'IntoIterator>?::into_iter$')]


@RS.rule('C16.R15', 'K-CALLERS', 'importing the environment and reading the command line cannot kill the shell: production code never calls std::env::vars or '
         'std::env::args (whose iterators panic on data that is not valid Unicode); the import that feeds VariableSet::extend_env reads the total accessor '
         'std::env::vars_os')
def r15(cx):
    F = cx.F
    uses = F.callers_of(lambda names, t: any(STD_ENV_ITERS.match(n) for n in names))
    count = {}
    for b, blk, t in uses:
        nm = next(n for n in (t['f'].get('def'), t['f'].get('decl')) if n and STD_ENV_ITERS.match(n))
        count[nm] = count.get(nm, 0) + 1
        cx.fn(b.fn)
        cx.site('%s calls %s at %s' % (b.root, nm, b.loc(t)))
        if nm == 'std::env::vars':
            cx.violation(b.root, 'panicking-accessor:std::env::vars', 'the environment is read with std::env::vars, whose iterator panics when a '
                         'name or value is not valid Unicode: with any such variable in the environment (`env "$(printf \'X=\\377\')" yash -c :`) '
                         'the shell dies at start-up with exit status 101. std::env::vars_os is the total accessor (entries the shell cannot '
                         'represent can be skipped)', loc=b.loc(t))
        if nm == 'std::env::args':
            # the positional parameters and the script name come from here (fix e-args: lossy conversion of args_os)
            cx.violation(b.root, 'panicking-accessor:std::env::args', 'the command line is read with std::env::args, whose iterator panics on an '
                         'argument that is not valid Unicode: `yash -c \'echo "$1"\' x "$(printf \'a\\377b\')"` dies with exit status 101 '
                         'instead of running the command. std::env::args_os is the total accessor', loc=b.loc(t))
    for b in F.bodies.values():
        if _mentions_fn(b, 'std::env::vars'):
            cx.violation(b.root, 'panicking-accessor-as-value:std::env::vars', 'std::env::vars is used as a function value; its iterator '
                         'panics on a non-Unicode environment variable', loc='%s:%s' % (b.file, b.line))
    # positive example: the matcher sees the calls that exist today, and the import is fed by one of them
    cx.site('std::env iterator accessors called in production code: %s' % ', '.join('%s x%d' % kv for kv in sorted(count.items())))
    imports = F.callers_of(lambda names, t: VSET + '::extend_env' in names)
    cx.require(imports, 'VariableSet::extend_env has no caller: the environment import moved (review how the environment is read)')
    fed = 0
    for b, blk, t in imports:
        du = Q.DefUse(b)
        src = Q.value_source(b, du, t['a'][1]) if len(t['a']) > 1 else None
        hops = 0
        while src is not None and hops < 8 and Q.callee_is(src, ITER_ADAPTERS) and src.get('a'):
            src = Q.value_source(b, du, src['a'][0])
            hops += 1
        name = pp.callee(src) if src is not None else None
        cx.fn(b.fn)
        cx.site('%s: extend_env at %s is fed by %s' % (b.root, b.loc(t), name or '<not traced>'))
        if name in ('std::env::vars_os', 'std::env::vars'):
            fed += 1
    cx.require(count.get('std::env::vars_os', 0) + count.get('std::env::vars', 0) >= 1,
               'production code calls neither std::env::vars_os nor std::env::vars: the environment is read in another way, the matcher '
               'of this rule would be vacuous (extend_env call sites fed by a std::env accessor: %d)' % fed)
    for b in F.bodies.values():
        if _mentions_fn(b, 'std::env::args'):
            cx.violation(b.root, 'panicking-accessor-as-value:std::env::args', 'std::env::args is used as a function value; its iterator '
                         'panics on a non-Unicode command-line argument', loc='%s:%s' % (b.file, b.line))
    cx.require(count.get('std::env::args_os', 0) + count.get('std::env::args', 0) >= 1,
               'production code calls neither std::env::args_os nor std::env::args: the command line is read in another way (review)')


RS.explanation += (' Added after fixes 1860a4a / 6f410ec / 4fe2991 / f728452: every use of Env::get_or_create_variable (the accessor that applies '
                   'allexport) is followed on every feasible path by assign on the returned variable (R12); env_c_strings builds a string only '
                   'for a name tested non-empty and free of `=` (R13); VariableSet::init, which runs after the environment import, assigns a '
                   'default only to a variable without a value, except IFS and OPTIND which it always assigns (R14); production code never '
                   'calls std::env::vars, whose iterator panics on non-Unicode data - the import reads std::env::vars_os (R15).')


# ------------------------------------------------------------------ R16 / R17 (seed C16-s8: cached index of the topmost regular context)
ITER = V + 'Iter'
CMP_OPS = ('Lt', 'Le', 'Gt', 'Ge', 'Eq', 'Ne')
# the state of the variable store, field by field: what each field holds and why nothing else is needed
STORE_FIELDS = {
    VSET: {
        'all_variables': 'name -> the stack of (variable, context index) entries, ascending by context index; the only place variables live',
        'contexts': 'the context stack itself (kind of each context + positional parameters); every scope boundary is computed from it when needed',
    },
    VIC: {
        'variable': 'the variable',
        'context_index': 'the position in VariableSet::contexts of the context that owns the variable; valid while that context exists '
                         '(pop_context_impl removes the entries of the popped context)',
    },
    ITER: {
        'inner': 'borrow of all_variables: while the iterator lives the set (and its context stack) cannot change',
        'min_context_index': 'the scope boundary computed by VariableSet::iter when the iterator was made; cannot go stale under the borrow above',
    },
}


class _Provenance:
    """Backward data slice of an integer value over the MIR of the workspace: follows copies, arithmetic, casts, (re)borrows, tuple
    fields and enum payloads through EVERY definition of a local, descends into workspace callees that have a body (their return
    place, parameters mapped back to the call's operands), treats other calls as depending on all their arguments, maps a closure's
    captured variable to the operand captured where the closure is built, and a private function's parameter to the operands of all
    its callers. The slice stops at fields of the store's own types: those are the leaves the rule judges.
      leaves: ('const',) | ('vset', field) | ('entry',) = VariableInContext::context_index | ('iter-min',) |
              ('field', adt, field) | ('param', fn, name, type) | ('closure-param', fn) | ('unknown', what)"""

    def __init__(self, F):
        self.F = F
        self._du = {}
        self._parents = {}
        self._callers = {}
        self.leaves = set()
        self.via = set()
        self.seen = set()

    def du(self, body):
        d = self._du.get(id(body))
        if d is None:
            d = self._du[id(body)] = Q.DefUse(body)
        return d

    def parents(self, closure_fn, root):
        """[(parent body, closure aggregate rvalue)] for a closure body"""
        k = closure_fn
        if k not in self._parents:
            out = []
            for pb in self.F.by_root.get(root) or []:
                for _, _, s in pb.stmts():
                    if s['k'] == 'assign' and s['rv']['k'] == 'agg' and s['rv'].get('ak') == 'closure' and s['rv'].get('def') == closure_fn:
                        out.append((pb, s['rv']))
            self._parents[k] = out
        return self._parents[k]

    def callers(self, fn):
        if fn not in self._callers:
            self._callers[fn] = self.F.callers_of(lambda names, t, fn=fn: t['f'].get('def') == fn or (not t['f'].get('def') and fn in names))
        return self._callers[fn]

    # ctx = None | (caller body, call terminator, caller ctx): where the parameters of `body` come from
    def operand(self, body, o, ctx, depth):
        pl = Q.operand_place(o)
        if pl is None:
            self.leaves.add(('const',))
            return
        self.place(body, pl, ctx, depth)

    def place(self, body, pl, ctx, depth):
        proj = pl.get('p') or []
        fields = [e for e in proj if isinstance(e, dict) and 'f' in e and e.get('adt')]
        for e in fields:
            if e['adt'] == VSET:
                self.leaves.add(('vset', str(e['f'])))
                return
            if e['adt'] == VIC:
                self.leaves.add(('entry',) if e['f'] == 'context_index' else ('field', VIC, str(e['f'])))
                return
            if e['adt'] == ITER:
                self.leaves.add(('iter-min',) if e['f'] == 'min_context_index' else ('field', ITER, str(e['f'])))
                return
        for e in fields:
            if e['adt'] == body.fn and pl['l'] == 1 and str(e['f']).isdigit():       # captured variable of this closure
                ps = self.parents(body.fn, body.root)
                if not ps:
                    self.leaves.add(('unknown', 'closure %s is built nowhere' % body.fn))
                for pb, rv in ps:
                    n = int(e['f'])
                    if n < len(rv['ops']):
                        # the parent is analysed as a function of its own (its parameters: see local())
                        self.operand(pb, rv['ops'][n], None, depth)
                    else:
                        self.leaves.add(('unknown', 'capture %d of %s' % (n, body.fn)))
                return
        for e in fields:
            a = self.F.adts.get(e['adt'])
            if a is not None and str(a.get('crate', '')).startswith('yash'):
                self.leaves.add(('field', e['adt'], str(e['f'])))
                return
        for l in Q.place_locals(pl):
            self.local(body, l, ctx, depth)

    def local(self, body, l, ctx, depth):
        key = (body.fn, id(body), l, id(ctx[1]) if ctx else None)
        if key in self.seen:
            return
        self.seen.add(key)
        du = self.du(body)
        defs = du.defs.get(l, [])
        if 1 <= l <= body.argc:
            self.param(body, l, ctx, depth)
        elif not defs:
            self.leaves.add(('unknown', 'local _%d of %s has no definition' % (l, body.fn)))
        for blk, idx, node in defs:
            if idx == 't':
                self.call(body, node, ctx, depth)
                continue
            if node['k'] != 'assign':
                continue
            rv = node['rv']
            k = rv['k']
            if k in ('use', 'binop', 'unop', 'cast', 'agg', 'repeat'):
                for o in Q.rvalue_operands(rv):
                    self.operand(body, o, ctx, depth)
            elif k in ('ref', 'rawptr', 'discr', 'len'):
                if rv.get('pl') is not None:
                    self.place(body, rv['pl'], ctx, depth)
            else:
                self.leaves.add(('unknown', 'rvalue kind %s' % k))

    def param(self, body, l, ctx, depth):
        if ctx is not None:
            cbody, t, cctx = ctx
            if l - 1 < len(t['a']):
                self.operand(cbody, t['a'][l - 1], cctx, depth)
            return
        is_closure = '{closure' in body.fn.rsplit('::', 1)[-1]
        if is_closure:
            if l >= 2:
                self.leaves.add(('closure-param', body.fn))
            return
        sig = self.F.fns.get(body.fn) or {}
        if sig.get('vis') != 'pub' and not body.fn.startswith('<'):
            cs = self.callers(body.fn)
            if cs and depth > 0:
                for cb, blk, t in cs:
                    if l - 1 < len(t['a']):
                        self.operand(cb, t['a'][l - 1], None, depth - 1)
                return
        self.leaves.add(('param', body.fn, body.local_name(l) or '_%d' % l, str(body.locals[l].get('ty', ''))))

    def call(self, body, t, ctx, depth):
        callee = t['f'].get('def')
        cb = self.F.bodies.get(callee) if callee else None
        self.via.add(pp.callee(t) or '?')
        if cb is not None and not cb.d.get('coroutine') and depth > 0 and len(t['a']) == cb.argc and cb.fn != body.fn:
            self.local(cb, 0, (body, t, ctx), depth - 1)
            return
        for a in t['a']:
            self.operand(body, a, ctx, depth)


def _store_bodies(F):
    return [b for fn, b in sorted(F.bodies.items()) if b.crate == 'yash_env' and 'yash_env::variable::' in fn]


def _boundary_sinks(F):
    """Where a context index is put to use against the variables: [(body, node, what, operand)]
       compare: the operand compared with an entry's context_index; new-entry: the context_index given to a new VariableInContext;
       iterator: the min_context_index given to a new Iter."""
    out = []
    for b in _store_bodies(F):
        du = None
        for blk, j, s in b.stmts():
            if s['k'] != 'assign':
                continue
            rv = s['rv']
            if rv['k'] == 'binop' and rv['op'] in CMP_OPS and 'usize' in (str(rv.get('ta')), str(rv.get('tb'))):
                du = du or Q.DefUse(b)
                ent = []
                for x in ('a', 'b'):
                    pl = _trace_place(du, rv[x]) if Q.operand_place(rv[x]) is not None else None
                    ent.append(pl is not None and _projects(pl, VIC, 'context_index'))
                if ent[0] != ent[1]:
                    out.append((b, s, 'compare', rv['b'] if ent[0] else rv['a']))
                elif ent[0]:
                    out.append((b, s, 'entry-vs-entry', None))
            elif rv['k'] == 'agg' and rv.get('ak') == 'adt' and rv.get('adt') in (VIC, ITER):
                want = 'context_index' if rv['adt'] == VIC else 'min_context_index'
                names = [str(f) for f in rv.get('fields') or []]
                if want in names and names.index(want) < len(rv['ops']):
                    out.append((b, s, 'new-entry' if rv['adt'] == VIC else 'iterator', rv['ops'][names.index(want)]))
                else:
                    out.append((b, s, 'unreadable-aggregate', None))
    return out


@RS.rule('C16.R16', 'K-TAINT', 'the context a scope resolves to is computed from the context stack when it is needed: every value that is '
         'compared with a variable\'s context index, given to a new entry as its context, or given to an iterator as its lower bound derives '
         '(through helpers, closures and arithmetic) only from constants, VariableSet::contexts and entries\' own context indices - never from '
         'another stored field of the set, which every push and pop would have to keep in step')
def r16(cx):
    F = cx.F
    cx.require(VSET in F.adts and VIC in F.adts and ITER in F.adts, 'VariableSet / VariableInContext / Iter not found (renamed?)')
    vset_fields = {f['name'] for v in F.adts[VSET]['variants'] for f in v['fields']}
    cx.require('contexts' in vset_fields, 'VariableSet has no field `contexts` any more: the context stack moved (review how scopes are resolved)')
    sinks = _boundary_sinks(F)
    # Iter::min_context_index is a leaf the rule accepts: it must only ever be filled when the iterator is built (a sink below)
    iter_min_writes = []
    for b in _store_bodies(F):
        for blk, j, s, kind, f in Q.field_writes(b, ITER, 'min_context_index'):
            iter_min_writes.append('%s at %s' % (b.fn, b.loc(s)))
    unclear = []
    n_from_stack = 0
    roots_from_stack = set()
    reported = set()
    for b, s, what, o in sinks:
        cx.fn(b.fn)
        if o is None:
            if what == 'unreadable-aggregate':
                unclear.append('%s: the aggregate at %s does not list the context-index field' % (b.fn, b.loc(s)))
            cx.site('%s: %s at %s (nothing to resolve)' % (b.fn, what, b.loc(s)))
            continue
        pv = _Provenance(F)
        pv.operand(b, o, None, 6)
        leaves = pv.leaves
        stored = sorted(l[1] for l in leaves if l[0] == 'vset' and l[1] != 'contexts')
        from_stack = ('vset', 'contexts') in leaves
        if from_stack:
            n_from_stack += 1
            roots_from_stack.add(b.root)
        shown = sorted({'constant' if l[0] == 'const' else 'VariableSet::%s' % l[1] if l[0] == 'vset' else 'an entry\'s context_index' if l[0] == 'entry'
                        else 'Iter::min_context_index' if l[0] == 'iter-min' else '%s of %s' % (l[0], '/'.join(str(x) for x in l[1:])) for l in leaves})
        cx.site('%s: %s at %s; the context index derives from: %s' % (b.fn, what, b.loc(s), ', '.join(shown) or '-'))
        for f in stored:
            if (b.root, f) in reported:
                continue
            reported.add((b.root, f))
            cx.violation(b.root, 'stored-scope-boundary:%s' % f, 'the context index used here (%s) is read from the stored field VariableSet::%s '
                         'instead of being computed from the context stack: it is right only while every push and pop of a context keeps the '
                         'field in step with `contexts` in every history. When it lags (e.g. after the function called in `command eval \'f; '
                         'typeset v=1\'` returns: two volatile contexts lie under the popped regular one) Scope::Local resolves to a volatile '
                         'context: the variable typeset declares lands in the built-in\'s temporary context and vanishes with it, and '
                         'get_scoped / unset / iter use the wrong boundary' % (what, f), loc=b.loc(s))
        for l in sorted(leaves, key=str):
            if l[0] in ('const', 'entry') or l == ('vset', 'contexts') or (l[0] == 'vset' and l[1] in stored):
                continue
            if l[0] == 'iter-min' and not iter_min_writes:
                continue
            if l[0] == 'param' and _is_type(_strip_ref(l[3]), V + 'Scope'):
                continue
            unclear.append('%s: the context index at %s depends on %s' % (b.fn, b.loc(s), ' '.join(str(x) for x in l)))
    cx.floor(len([1 for _, _, w, o in sinks if o is not None]), 8, 'uses of a context index against the variables (hand count: get_scoped filter, '
             'get_or_new_impl 2 comparisons + 3 new entries, unset partition_point, iter, Iter::next, pop_context_impl retain)')
    if not cx.violations:
        # every Scope-taking accessor of the set must be among the functions whose boundary comes from the stack
        scoped = sorted(fn for fn, sig in F.fns.items() if fn.startswith(VSET + '::') and fn in F.bodies and
                        any(_is_type(_strip_ref(str(i)), V + 'Scope') for i in (sig.get('inputs') or [])))
        cx.require(scoped, 'no method of VariableSet takes a Scope any more (API changed: review)')
        wrappers = {fn for fn in scoped if any(pp.callee(t) in scoped for _, t in F.bodies[fn].calls())}
        for fn in scoped:
            ok = fn in roots_from_stack or fn in wrappers or (F.fns[fn].get('vis') != 'pub' and any(
                cb.root in roots_from_stack or cb.root in scoped for cb, _, _ in F.callers_of(lambda names, t, fn=fn: fn in names)))
            cx.site('%s takes a Scope; a context index it uses is computed from VariableSet::contexts: %s' % (fn, ok))
            if not ok:
                unclear.append('%s takes a Scope but no context index computed from `contexts` is used against the variables in it' % fn)
        cx.require(not unclear, 'context-index uses this rule does not understand (review, then extend the rule): %s' % '; '.join(unclear[:6]))
        cx.floor(n_from_stack, 6, 'context indices computed from VariableSet::contexts')


@RS.rule('C16.R17', 'K-TYPE', 'the state of the variable store is exactly its reviewed fields: VariableSet = all_variables + contexts, '
         'VariableInContext = variable + context_index, Iter = inner + min_context_index; a new field (a cache, a counter, a second stack) is '
         'state that every history must keep consistent and is reported until reviewed')
def r17(cx):
    F = cx.F
    for adt in sorted(STORE_FIELDS):
        a = F.adt(adt)
        cx.require(len(a['variants']) == 1 and a.get('kind') == 'Struct', '%s is no longer a struct' % adt)
        have = [f['name'] for f in a['variants'][0]['fields']]
        for f in have:
            cx.cellcount(1)
            why = STORE_FIELDS[adt].get(f)
            cx.site('%s::%s : %s - %s' % (adt, f, next(x['ty'] for x in a['variants'][0]['fields'] if x['name'] == f), why or 'NOT REVIEWED'))
            if why is None:
                cx.violation(adt, 'unreviewed-field:%s' % f, 'the variable store has a field that is not part of its reviewed state (%s): whatever '
                             'it holds must be kept consistent with the context stack and the per-name stacks by every push, pop, assignment '
                             'and unset in every history (and by Clone / PartialEq / fork save-restore); the rules of this property reason only '
                             'about %s. A cached scope boundary that lags behind the stack makes typeset / unset / get_scoped act on the wrong '
                             'context' % (f, ', '.join(sorted(STORE_FIELDS[adt]))), loc='%s:%s' % (a.get('file'), a.get('line')))
        for f in sorted(set(STORE_FIELDS[adt]) - set(have)):
            cx.require(False, '%s::%s no longer exists: the representation of the store changed, review the rules of this property' % (adt, f))


RS.explanation += (' Added after seed C16-s8: every context index that is compared with an entry\'s context_index, stored in a new entry or handed '
                   'to Iter derives, across helpers / closures / arithmetic, only from constants, VariableSet::contexts and entries\' own indices - '
                   'never from another stored field of the set (R16); VariableSet, VariableInContext and Iter have exactly their reviewed fields (R17).')


# ------------------------------------------------------------------ R18 / R19 (seeds C16-s9, C16-s10: which scope typeset and unset ask for)
TS = 'yash_builtin::typeset::'
TS_SCOPE = TS + 'Scope'
TS_INTERPRET = TS + 'syntax::interpret'
TS_OPTSPEC = TS + 'syntax::OptionSpec'
TS_GLOBAL_OPTION = TS + 'syntax::GLOBAL_OPTION'
TS_SCOPED_COMMANDS = {TS + 'SetVariables': 'typeset / local / export / readonly NAME...: declares the operands in this scope',
                      TS + 'PrintVariables': 'typeset -p / typeset without operands: prints the variables of this scope'}
OPT_PRESENT = [re.compile(r'^core::option::Option::<T>::is_some$')]
OPT_ABSENT = [re.compile(r'^core::option::Option::<T>::is_none$')]


def _unit_variant_defs(body, du, operand, adt, depth=6):
    """The definitions an operand of enum type `adt` may come from, through copies of whole locals with any number of definitions:
    [(block, variant)] when every one of them builds a field-less variant; None when some definition is computed otherwise."""
    p = Q.operand_place(operand)
    if p is None:
        return None
    out, seen, work = [], set(), [(p, depth)]
    while work:
        p, d = work.pop()
        if p.get('p') or d == 0:
            return None
        l = p['l']
        if l in seen:
            continue
        seen.add(l)
        defs = du.defs.get(l, [])
        if not defs:
            return None
        for blk, idx, node in defs:
            if idx == 't' or node['k'] != 'assign' or node['lhs'].get('p'):
                return None
            rv = node['rv']
            if rv['k'] == 'agg' and rv.get('ak') == 'adt' and rv.get('adt') == adt and not rv.get('ops'):
                out.append((blk, str(rv['variant'])))
            elif rv['k'] == 'use' and Q.operand_place(rv['o']) is not None:
                work.append((Q.operand_place(rv['o']), d - 1))
            else:
                return None
    return out


def _copy_root(du, l, depth=6):
    """The local a local is a plain single-definition copy of (the parameter of an inlined helper -> the caller's variable)."""
    for _ in range(depth):
        d = du.single_def(l)
        if d is None or d[1] == 't' or d[2]['k'] != 'assign' or d[2]['rv']['k'] != 'use':
            return l
        q = Q.operand_place(d[2]['rv']['o'])
        if q is None or q.get('p'):
            return l
        l = q['l']
    return l


def _flag_tested(du, org, labels):
    """A switch that tests whether an option was seen, in the shapes a flag is kept: `Option<_>` local (match / if let / is_some / is_none) or
    bool local. -> (flag local, {successor: True (seen) | False (not seen)}) or None."""
    def by(present_label, absent_label):
        out = {}
        for tgt, labs in labels.items():
            labs = set(labs)
            if labs == {present_label}:
                out[tgt] = True
            elif labs == {absent_label}:
                out[tgt] = False
        return out
    flip, hops = False, 0
    while org.get('k') == 'unop' and org['rv'].get('op') == 'Not' and hops < 3:        # `if !flag.is_some()`
        org, flip, hops = du.origin(org['rv']['o']), not flip, hops + 1
    if flip:
        labels = {tgt: [('bool', not lab[1]) if lab[0] == 'bool' else lab for lab in labs] for tgt, labs in labels.items()}
    if org['k'] == 'discr' and not org['pl'].get('p') and str(org.get('ty', '')).startswith('core::option::Option<'):
        return org['pl']['l'], by(('variant', 'Some'), ('variant', 'None'))
    if org['k'] == 'call' and org['t'].get('a') and (Q.callee_is(org['t'], OPT_PRESENT) or Q.callee_is(org['t'], OPT_ABSENT)):
        pl = _trace_place(du, org['t']['a'][0])
        if pl is not None and not pl.get('p'):
            pos = Q.callee_is(org['t'], OPT_PRESENT)
            return pl['l'], by(('bool', bool(pos)), ('bool', not pos))
    if org['k'] == 'place' and not org['pl'].get('p') and du.body.locals[org['pl']['l']].get('ty') == 'bool':
        return org['pl']['l'], by(('bool', True), ('bool', False))
    return None


def _option_flag_defs(F, body, du, flag, short):
    """Is local `flag` the record of "the option whose short name is `short` occurred"? Every definition is either the constant `not seen`
    (None / false) or the constant `seen` (Some(_) / true) on an edge where OptionSpec::short of the option looked at equals `short`.
    -> (ok, why-not, [blocks of the `seen` definitions], [(switch block, target) edges that select the option])"""
    seen_defs, sel_edges = [], set()
    defs = du.defs.get(flag, [])
    if not defs:
        return False, 'it is a parameter', [], []
    for blk, idx, node in defs:
        if idx == 't' or node['k'] != 'assign' or node['lhs'].get('p'):
            return False, 'it is computed at %s' % body.loc(node), [], []
        rv = node['rv']
        val = None
        if rv['k'] == 'agg' and rv.get('ak') == 'adt' and rv.get('adt') == 'core::option::Option':
            val = str(rv['variant']) == 'Some'
        elif rv['k'] == 'use':
            val = _const_bool(rv['o'])
            if val is None:
                o = du.origin(rv['o'])
                if o['k'] == 'agg' and o['rv'].get('adt') == 'core::option::Option':
                    val = str(o['rv']['variant']) == 'Some'
        if val is None:
            return False, 'it is computed at %s' % body.loc(node), [], []
        if not val:
            continue
        def selects(org, lab):
            if lab == ('int', short) and org['k'] == 'place':                       # match option.spec.short { 'g' => .. }
                return _projects(org['pl'], TS_OPTSPEC, 'short')
            if lab == ('bool', True) and org['k'] == 'binop' and org['rv'].get('op') == 'Eq':      # if short == 'g' / `c if c == 'g'`
                a, b_ = org['rv']['a'], org['rv']['b']
                for x, y in ((a, b_), (b_, a)):
                    pl = _trace_place(du, x) if Q.operand_place(x) is not None else None
                    if pl is not None and _projects(pl, TS_OPTSPEC, 'short') and str(y.get('c')) == repr(chr(short)) and y.get('ty') == 'char':
                        return True
            return False
        sel = [e for org, lab, e in Q.implied_conditions(F, body, du, blk) if selects(org, lab)]
        if not sel:
            return False, 'it is set at %s where the option looked at is not known to be the one with that short name' % body.loc(node), [], []
        seen_defs.append(blk)
        sel_edges.update(sel)
    if not seen_defs:
        return False, 'it is never set', [], []
    return True, '', seen_defs, sorted(sel_edges)


@RS.rule('C16.R18', 'K-TABLE', 'the scope typeset / local / export / readonly act in is a function of the -g/--global option alone: in '
         'typeset::syntax::interpret, for SetVariables and for PrintVariables, the `scope` field is Scope::Global exactly when the option was '
         'seen and Scope::Local otherwise - no attribute (export, read-only), no other option (-p, -f, -X) and no operand takes part, and '
         'every occurrence of the option is recorded')
def r18(cx):
    F = cx.F
    body = F.inlined(TS_INTERPRET)
    cx.fn(TS_INTERPRET)
    du = Q.DefUse(body)
    cx.require(TS_SCOPE in F.adts and [v['name'] for v in F.adts[TS_SCOPE]['variants']] == ['Global', 'Local'],
               'typeset::Scope is no longer the enum {Global, Local}: review the scope table of the typeset family')
    h = F.hir.get(TS_GLOBAL_OPTION)
    cx.require(h is not None, 'typeset::syntax::GLOBAL_OPTION not found (renamed?)')
    spec = H.const_eval(h['body'])
    short = spec[2].get('short') if isinstance(spec, tuple) and len(spec) == 3 and isinstance(spec[2], dict) else None
    cx.require(isinstance(short, str) and len(short) == 1, 'GLOBAL_OPTION.short is not a character constant this rule can read (%r)' % (spec,))
    short = ord(short)
    live = body.live_blocks()
    reach = {}

    def reachable_from(s):
        if s not in reach:
            reach[s] = set(body.reachable(s)) | {s}
        return reach[s]

    flags = {}
    for adt in sorted(TS_SCOPED_COMMANDS):
        name = adt.rsplit('::', 1)[-1]
        aggs = [(b, j, s) for b, j, s in Q.find_aggregates(body, adt) if b in live]
        cx.require(aggs, 'interpret no longer builds %s itself (moved? review where the scope of %s is chosen)' % (name, TS_SCOPED_COMMANDS[adt]))
        for ub, j, s in aggs:
            rv = s['rv']
            names = [str(f) for f in rv.get('fields') or []]
            cx.require('scope' in names and names.index('scope') < len(rv['ops']), '%s has no field `scope` any more' % name)
            defs = _unit_variant_defs(body, du, rv['ops'][names.index('scope')], TS_SCOPE)
            cx.require(defs is not None, 'interpret: the scope given to %s at %s is not chosen among Scope constants inside interpret (computed '
                       'by a helper this rule cannot see through): review' % (name, body.loc(s)))
            allD = {d for d, v in defs if d in live}

            def alive(d):        # the definition in block d can be the one the command is built with
                return d == ub or any(ub in body.reachable(sx, removed=allD - {d}) for sx in body.succ(d))
            defs = [(d, v) for d, v in defs if d in allD and alive(d)]
            cx.require(defs, 'interpret: no definition of the scope reaches %s at %s' % (name, body.loc(s)))
            D = {}
            for d, v in defs:
                D.setdefault(d, set()).add(v)
            variants = sorted({v for d, v in defs})
            # the switches that decide WHICH definition the command gets: the definitions that can be the last one before the command
            # differ between the successors (downstream definitions, or - when the successor reaches the command without passing a
            # definition - the ones that were in force at the switch: `let mut scope = Local; if g { scope = Global }`)
            deciding = []
            for u in sorted(live):
                if body.term(u)['k'] != 'switch':
                    continue
                upstream = frozenset(d for d in D if d == u or any(u in body.reachable(sx, removed=allD - {d}) for sx in body.succ(d)))
                per = {}
                for sx in set(body.succ(u)):
                    r = frozenset(d for d in D if d in reachable_from(sx))
                    if sx not in allD and ub in body.reachable(sx, removed=allD):
                        r |= upstream
                    if r:
                        per[sx] = r
                if len(set(per.values())) > 1:
                    deciding.append((u, per))
            cx.site('interpret: %s at %s gets scope %s; decided by the test(s) at %s'
                    % (name, body.loc(s), '/'.join(variants), ', '.join(body.loc(body.term(u)) for u, _ in deciding) or '-'))
            cx.cellcount(2)
            for want in ('Global', 'Local'):
                if want not in variants:
                    cx.violation(TS_INTERPRET, 'scope-never-%s:%s' % (want.lower(), name), '%s is only ever built with Scope::%s: %s' % (
                        name, '/'.join(variants), 'inside a function `typeset v=1` / `local v` assigns the global (or whatever is visible) '
                        'instead of making a local that vanishes at return' if want == 'Local' else
                        '`typeset -g v=1` inside a function makes a local instead of reaching the global'), loc=body.loc(s))
            for u, per in deciding:
                ec = Q.edge_condition(F, body, du, u)
                ft = _flag_tested(du, ec[0], ec[1]) if ec else None
                okflag = None
                if ft is not None:
                    ft = (_copy_root(du, ft[0]), ft[1])
                    if ft[0] not in flags:
                        flags[ft[0]] = _option_flag_defs(F, body, du, ft[0], short)
                    okflag = flags[ft[0]]
                if ft is None or not okflag[0]:
                    what = ('`%s`, which does not record the -g option: %s' % (body.local_name(ft[0]) or '_%d' % ft[0], okflag[1])) if ft is not None \
                        else 'a condition that is not the presence of the -g option'
                    cx.violation(TS_INTERPRET, 'scope-decided-by-other-than-global-option:%s' % name,
                                 'the scope of %s also depends on %s. The scope is Global with -g/--global and Local without, whatever else is '
                                 'on the command line: e.g. with the export attribute taking part, `f() { typeset -x tmp=1; }; f` leaves a '
                                 'global exported `tmp` behind (and overwrites the caller\'s `tmp`) although locals vanish at return'
                                 % (name, what), loc=body.loc(body.term(u)))
                    continue
                for sx, r in sorted(per.items()):
                    pol = ft[1].get(sx)
                    got = sorted({v for d in r for v in D[d]})
                    if pol is None:
                        continue
                    want = 'Global' if pol else 'Local'
                    if got != [want]:
                        cx.violation(TS_INTERPRET, 'scope-table:%s:%s' % (name, 'with-g' if pol else 'without-g'),
                                     '%s the -g option %s gets Scope::%s instead of Scope::%s: `typeset%s v` in a function %s'
                                     % ('with' if pol else 'without', name, '/'.join(got), want, ' -g' if pol else '',
                                        'makes a local instead of reaching the global' if pol else 'changes the global instead of making a local'),
                                     loc=body.loc(body.term(u)))
    # every occurrence of the option is recorded: from the edge that selects the option no path gets back to the option loop / out
    # of the function without setting the flag
    cx.require(flags or cx.violations, 'interpret: no test of an option flag decides the scope (the scope is chosen in a way this rule does not understand)')
    for fl, (ok, why, seen_defs, sel_edges) in sorted(flags.items()):
        if not ok:
            continue
        nm = body.local_name(fl) or '_%d' % fl
        cx.site('interpret: `%s` records the -g option: set at %s on the edge(s) where OptionSpec::short == %r'
                % (nm, ', '.join(body.loc(body.blocks[b]['s'][-1]) if body.blocks[b]['s'] else 'bb%d' % b for b in seen_defs), chr(short)))
        for u, tgt in sel_edges:
            goals = set(body.return_blocks()) | {u}
            p = Q.must_pass(body, [tgt], seen_defs, goals)
            if p is not None:
                cx.violation(TS_INTERPRET, 'global-option-not-recorded', 'an occurrence of -g/--global can be passed over without being recorded '
                             '(e.g. depending on its state or on another option): `typeset -g v=1` in a function then makes a local',
                             loc=body.loc(body.term(u)), path=Q.render_path(body, p))


UNSET_CALLERS = {
    # production caller of VariableSet::unset -> (scope it must pass, why)
    'yash_builtin::unset::semantics::unset_variables': ('Global', 'the unset built-in removes the variable from every context it is visible '
                                                        'through (documented: "unset x" leaves no x), so a hidden outer x does not reappear'),
    'yash_builtin::getopts::report::<impl yash_builtin::getopts::model::Result>::report': ('Global', 'getopts unsets OPTARG as the shell variable it sets with Scope::Global'),
}
VSET_UNSET = VSET + '::unset'
UNSET_MAIN = 'yash_builtin::unset::main'


@RS.rule('C16.R19', 'K-CALLERS+K-CONST', 'unsetting a variable on behalf of the user removes it from every context: every production call of '
         'VariableSet::unset is a reviewed caller (the unset built-in, getopts for OPTARG) and passes the constant Scope::Global - never Local / '
         'Volatile and never a scope computed from the state of the variables')
def r19(cx):
    F = cx.F
    cx.require(VSET_UNSET in F.bodies, 'VariableSet::unset not found (renamed?)')
    calls = F.callers_of(lambda names, t: VSET_UNSET in names)
    seen = set()
    for b, blk, t in calls:
        cx.fn(b.fn)
        du = Q.DefUse(b)
        defs = _unit_variant_defs(b, du, t['a'][2], V + 'Scope') if len(t['a']) > 2 else None
        if defs is None and len(t['a']) > 2:
            o = du.origin(t['a'][2])
            if o['k'] == 'agg' and o['rv'].get('adt') == V + 'Scope' and not o['rv'].get('ops'):
                defs = [(o.get('b'), str(o['rv']['variant']))]
            elif o['k'] == 'const' and re.search(r'Scope::(Global|Local|Volatile)\b', str(o['o'].get('c'))):
                defs = [(None, re.search(r'Scope::(Global|Local|Volatile)\b', str(o['o'].get('c'))).group(1))]
        variants = sorted({v for _, v in defs}) if defs else None
        shown = '/'.join(variants) if variants else '<computed>'
        want = UNSET_CALLERS.get(b.root)
        seen.add(b.root)
        cx.cellcount(1)
        cx.site('%s: VariableSet::unset(.., Scope::%s) at %s - %s' % (b.root, shown, b.loc(t), want[1] if want else 'NOT REVIEWED'))
        if want is None:
            cx.violation(b.root, 'unreviewed-unset-caller', 'VariableSet::unset is called from a function that is not a reviewed caller (scope '
                         '%s): which contexts lose the variable decides what a later lookup finds (a hidden outer variable reappears after a '
                         'Local / Volatile unset)' % shown, loc=b.loc(t))
        elif variants != [want[0]]:
            cx.violation(b.root, 'unset-scope:%s' % ('+'.join(variants) if variants else 'computed'),
                         'the variable is unset with Scope::%s instead of the constant Scope::%s: %s. With a narrower scope, `x=outer; f() { '
                         'typeset x=inner; unset x; echo "${x-unset}"; }; f` prints `outer` (only the local is removed, the hidden variable '
                         'reappears and survives the return), and a read-only variable below the local is no longer an error'
                         % (shown, want[0], want[1]), loc=b.loc(t))
    for b in F.bodies.values():
        if _mentions_fn(b, VSET_UNSET):
            cx.violation(b.root, 'unset-as-value', 'VariableSet::unset is used as a function value: the scope it is applied with cannot be read '
                         'off the call', loc='%s:%s' % (b.file, b.line))
    for fn in sorted(UNSET_CALLERS):
        cx.require(fn in seen or cx.violations, 'reviewed caller %s no longer calls VariableSet::unset itself (moved? review which scope the '
                   'variable is unset in)' % fn)
    # the unset built-in reaches its reviewed caller
    mains = [b for b in F.logical(UNSET_MAIN)] if UNSET_MAIN in F.by_root else []
    cx.require(mains, 'yash_builtin::unset::main not found')
    reached = any(pp.callee(t) == 'yash_builtin::unset::semantics::unset_variables' for mb in mains for _, t in mb.calls())
    cx.site('unset::main calls unset_variables: %s' % reached)
    cx.require(reached, 'the unset built-in no longer unsets variables through unset::semantics::unset_variables (review the new path)')


RS.explanation += (' Added after seeds C16-s9 / C16-s10: in typeset::syntax::interpret the scope of SetVariables / PrintVariables is decided only by '
                   'tests of the flag that records the option whose short name is GLOBAL_OPTION.short - Global when seen, Local otherwise, every '
                   'occurrence recorded (R18); every production call of VariableSet::unset is a reviewed caller passing the constant Scope::Global (R19).')
