//! Compile-fail witnesses (K-WITNESS): each violating client program must be rejected
//! by the type checker with the stated error code, and its twin, which differs only
//! by the offending line, must compile (`no_run`: twins are built, never executed).
//! Run by ycheck/witness.py with `cargo +nightly test --doc` (error codes are only
//! honoured on nightly).

/// C12: a job's state cannot be written through the handle the job list hands out.
/// ```compile_fail,E0594
/// use yash_env::job::{Job, JobList, Pid, ProcessState};
/// let mut jobs = JobList::new();
/// let index = jobs.add(Job::new(Pid(10)));
/// let mut job = jobs.get_mut(index).unwrap();
/// job.state = ProcessState::Running;
/// ```
pub mod c12_jobrefmut_assign {}

/// ```no_run
/// use yash_env::job::{Job, JobList, Pid, ProcessState};
/// let mut jobs = JobList::new();
/// let index = jobs.add(Job::new(Pid(10)));
/// let mut job = jobs.get_mut(index).unwrap();
/// let _state: ProcessState = job.state;
/// job.expect(None);
/// ```
pub mod c12_jobrefmut_assign_twin {}

/// C12: the pid of a listed job cannot be changed either.
/// ```compile_fail,E0594
/// use yash_env::job::{Job, JobList, Pid};
/// let mut jobs = JobList::new();
/// let index = jobs.add(Job::new(Pid(10)));
/// let mut job = jobs.get_mut(index).unwrap();
/// job.pid = Pid(11);
/// ```
pub mod c12_jobrefmut_pid {}

/// C15: a relay sender is consumed by `send` (each result is delivered at most once).
/// ```compile_fail,E0382
/// let (sender, _receiver) = yash_executor::forwarder::forwarder::<i32>();
/// let _ = sender.send(1);
/// let _ = sender.send(2);
/// ```
pub mod c15_sender_send_twice {}

/// ```no_run
/// let (sender, _receiver) = yash_executor::forwarder::forwarder::<i32>();
/// let _ = sender.send(1);
/// ```
pub mod c15_sender_send_twice_twin {}

/// C15: a relay sender cannot be duplicated.
/// ```compile_fail,E0599
/// let (sender, _receiver) = yash_executor::forwarder::forwarder::<i32>();
/// let _second = sender.clone();
/// ```
pub mod c15_sender_not_clone {}

/// C16: a variable's value cannot be written through `VariableRefMut` except by
/// `assign`, which checks the read-only flag.
/// ```compile_fail,E0594
/// use yash_env::variable::{Scope, Value, VariableSet};
/// let mut set = VariableSet::new();
/// let mut var = set.get_or_new("x", Scope::Global);
/// var.value = Some(Value::scalar("v"));
/// ```
pub mod c16_variablerefmut_value {}

/// ```no_run
/// use yash_env::variable::{Scope, Value, VariableSet};
/// let mut set = VariableSet::new();
/// let mut var = set.get_or_new("x", Scope::Global);
/// let _old = var.value.clone();
/// var.assign(Value::scalar("v"), None).unwrap();
/// ```
pub mod c16_variablerefmut_value_twin {}

/// C16: the read-only mark cannot be cleared through `VariableRefMut`.
/// ```compile_fail,E0594
/// use yash_env::variable::{Scope, VariableSet};
/// let mut set = VariableSet::new();
/// let mut var = set.get_or_new("x", Scope::Global);
/// var.read_only_location = None;
/// ```
pub mod c16_variablerefmut_readonly {}

/// C08: the task run in a subshell cannot borrow from the parent (it must own its
/// captures: `'static`), so it cannot write through a reference into parent state.
/// ```compile_fail,E0597
/// use yash_env::subshell::Config;
/// async fn f(env: &mut yash_env::Env<std::rc::Rc<yash_env::system::Concurrent<yash_env::VirtualSystem>>>) {
///     let mut parent_state = String::new();
///     let leak = &mut parent_state;
///     let _ = Config::new().start(env, async move |_env, _job_control| { leak.push('x'); }).await;
/// }
/// ```
pub mod c08_child_borrows_parent {}

/// ```no_run
/// use yash_env::subshell::Config;
/// async fn f(env: &mut yash_env::Env<std::rc::Rc<yash_env::system::Concurrent<yash_env::VirtualSystem>>>) {
///     let parent_state = String::new();
///     let mut copy = parent_state.clone();
///     let _ = Config::new().start(env, async move |_env, _job_control| { copy.push('x'); }).await;
/// }
/// ```
pub mod c08_child_borrows_parent_twin {}
